// Command gosymex: solver-based bounded checking of golang/perf properties
// by symbolic execution of go/ssa.
package main

import (
	"flag"
	"fmt"
	"os"
	"path/filepath"
	"runtime"
	"strconv"

	"verif/engine/sx"
)

func main() {
	if len(os.Args) < 2 {
		fmt.Println("usage: gosymex check|replay -prop Cxx [-tier quick|thorough]")
		os.Exit(2)
	}
	cmd := os.Args[1]
	fs := flag.NewFlagSet(cmd, flag.ExitOnError)
	prop := fs.String("prop", "", "property id")
	tier := fs.String("tier", os.Getenv("VERIF_TIER"), "quick or thorough")
	repo := fs.String("repo", "/repo", "repository root")
	verif := fs.String("verif", "/verif", "verification root")
	workers := fs.Int("workers", 0, "worker count (default: min(16, NumCPU))")
	debug := fs.Bool("debug", false, "debug output")
	only := fs.String("job", "", "only jobs whose key contains this string")
	noreplay := fs.Bool("noreplay", false, "skip native replay/validation")
	file := fs.String("file", "", "replay file")
	slog := fs.String("solverlog", "", "write z3 transcript of worker 0 here")
	fs.Parse(os.Args[2:])
	if *tier == "" {
		*tier = "quick"
	}
	seed := int64(1)
	if s := os.Getenv("VERIF_SEED"); s != "" {
		if v, err := strconv.ParseInt(s, 10, 64); err == nil {
			seed = v
		}
	}
	if *workers == 0 {
		*workers = runtime.NumCPU()
		if *workers > 16 {
			*workers = 16
		}
	}
	opt := sx.Options{Repo: *repo, Verif: *verif, Tier: *tier, Seed: seed, Workers: *workers, Debug: *debug, OnlyJob: *only, NoReplay: *noreplay, SolverLog: *slog}
	spec := filepath.Join(*verif, "harness", *prop, "spec.json")
	switch cmd {
	case "check":
		os.Exit(sx.Check(spec, opt))
	case "replay":
		os.Exit(sx.Replay(spec, *file, opt))
	}
	fmt.Println("unknown command", cmd)
	os.Exit(2)
}

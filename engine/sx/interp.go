package sx

// interp.go: the SSA interpreter proper. Structure follows
// golang.org/x/tools/go/ssa/interp (BSD licence, The Go Authors), rewritten
// over symbolic scalar values.

import (
	"fmt"
	"os"
	"go/token"
	"go/types"
	"runtime"
	"slices"
	"strings"

	"golang.org/x/tools/go/ssa"
)

type continuation int

const (
	kNext continuation = iota
	kReturn
	kJump
)

// targetPanic is a panic of the interpreted program (explicit panic or a
// run-time error such as index out of range).
type targetPanic struct {
	v value
}

// pathAbort ends the current path for an engine-level reason. It is not
// visible to the interpreted program's recover().
type pathAbort struct {
	kind string // "assume", "unsupported", "steps", "depth", "done"
	msg  string
}

type engineError struct{ msg string }

type deferred struct {
	fn    value
	args  []value
	instr *ssa.Defer
	tail  *deferred
}

type frame struct {
	i                *interpreter
	caller           *frame
	fn               *ssa.Function
	block, prevBlock *ssa.BasicBlock
	env              map[ssa.Value]value
	locals           []value
	defers           *deferred
	result           value
	panicking        bool
	panic            interface{}
	phitemps         []value
	depth            int
	curInstr         ssa.Instruction
}

type decision struct {
	taken bool
	cand  uint64 // candidate value of a concretize step
}

type interpreter struct {
	prog    *ssa.Program
	b       *Builder
	globals map[*ssa.Global]*value
	zeros   [8]*Term
	bytes   [256]*Term

	intrinsicCache map[*ssa.Function]intrinsicFn
	fnNames        map[*ssa.Function]string

	trailOn bool
	trail   []trailEnt

	// per-path state
	pc        []*Term
	prefix    []decision // decisions to replay
	decisions []decision // decisions taken so far on this path
	forks     [][]decision
	steps     int64
	maxSteps  int64
	maxDepth  int

	ex *Explorer // back pointer for solver access, vnd state

	funcsSeen map[*ssa.Function]bool
	sideState map[*value]interface{} // intrinsic object state keyed by receiver address (sync.Map etc.)
	goDepth   int                    // > 0 while a sequentialised goroutine body runs
	gomaxprocs int                   // what runtime.GOMAXPROCS reports (0: default 4); set by vndGOMAXPROCS

	runtimeErrorType types.Type
	stubs            map[string]*ssa.Function // function name -> replacement

	lastFrame *frame

	bypassIntrinsic bool // the next callSSA interprets the body even if an intrinsic exists
}

func (fr *frame) get(key ssa.Value) value {
	switch key := key.(type) {
	case nil:
		return nil
	case *ssa.Function, *ssa.Builtin:
		return key
	case *ssa.Const:
		return fr.i.constValue(key)
	case *ssa.Global:
		if r, ok := fr.i.globals[key]; ok {
			return r
		}
		// Global of a package whose storage was not allocated (should not happen).
		panic(pathAbort{"unsupported", "global without storage: " + key.String()})
	}
	if r, ok := fr.env[key]; ok {
		return r
	}
	panic(fmt.Sprintf("get: no value for %T: %v", key, key.Name()))
}

func (i *interpreter) unsupported(format string, args ...interface{}) {
	panic(pathAbort{"unsupported", fmt.Sprintf(format, args...)})
}

// ---------------------------------------------------------------- forking

// decide resolves a symbolic condition to a concrete direction, forking the
// path when both directions are feasible.
func (i *interpreter) decide(c *Term) bool { return i.decideC(c, 0) }

func (i *interpreter) decideC(c *Term, cand uint64) bool {
	if c.op == OConst {
		return c.val != 0
	}
	n := len(i.decisions)
	if n < len(i.prefix) {
		d := i.prefix[n]
		i.decisions = append(i.decisions, d)
		if d.taken {
			i.pc = append(i.pc, c)
		} else {
			i.pc = append(i.pc, i.b.Not(c))
		}
		return d.taken
	}
	canT, canF := i.ex.feasible2(i, c)
	switch {
	case canT && canF:
		alt := make([]decision, n+1)
		copy(alt, i.decisions)
		alt[n] = decision{false, cand}
		i.forks = append(i.forks, alt)
		i.decisions = append(i.decisions, decision{true, cand})
		i.pc = append(i.pc, c)
		return true
	case canT:
		i.decisions = append(i.decisions, decision{true, cand})
		i.pc = append(i.pc, c)
		return true
	case canF:
		i.decisions = append(i.decisions, decision{false, cand})
		i.pc = append(i.pc, i.b.Not(c))
		return false
	}
	// Neither direction is feasible: the path condition itself became
	// unsatisfiable (possible after an "unknown" kept a branch alive).
	panic(pathAbort{"infeasible", "no feasible direction"})
}

// assume adds c to the path condition without forking.
func (i *interpreter) assume(c *Term) {
	if c.op == OConst {
		if c.val == 0 {
			panic(pathAbort{"assume", "assumption is false"})
		}
		return
	}
	i.pc = append(i.pc, c)
}

// concretize returns a concrete value for t, forking over all feasible
// values. Candidates come from the solver's model.
func (i *interpreter) concretize(t *Term, what string) uint64 {
	if t.op == OConst {
		return t.val
	}
	if i.ex.run.Cfg.Debug && len(i.decisions) >= len(i.prefix) {
		fmt.Fprintf(os.Stderr, "CONCRETIZE %s %s at %s in %v\n", what, t.String(), i.where(i.lastFrame), i.lastFrame.fn)
	}
	for tries := 0; ; tries++ {
		if tries > 4096 {
			panic(pathAbort{"unsupported", "concretize: too many values for " + what})
		}
		var cand uint64
		n := len(i.decisions)
		if n < len(i.prefix) {
			cand = i.prefix[n].cand
		} else {
			v, res := i.ex.modelValue(i, t)
			if res == Unsat {
				panic(pathAbort{"infeasible", "concretize: no model for " + what})
			}
			if res != Sat {
				// not a verdict: the path is given up and counted as not explored
				panic(pathAbort{"unsupported", "concretize: the solver gave no verdict on the values of " + what})
			}
			cand = v
		}
		if i.decideC(i.b.Eq(t, i.b.BV(t.sort, cand)), cand) {
			return cand
		}
	}
}

// concInt concretizes an integer value used as an index or size and returns
// it sign-extended.
func (i *interpreter) concInt(v value, what string) int64 {
	t := v.(*Term)
	if t.op == OConst {
		return t.ConstS64()
	}
	u := i.concretize(t, what)
	return sext64(u, t.sort)
}

// ---------------------------------------------------------------- defers and panics

func (fr *frame) runDefer(d *deferred) {
	var ok bool
	defer func() {
		if !ok {
			r := recover()
			if pa, isAbort := r.(pathAbort); isAbort {
				panic(pa)
			}
			if ee, isEE := r.(engineError); isEE {
				panic(ee)
			}
			fr.panicking = true
			fr.panic = r
		}
	}()
	fr.i.call(fr, d.instr.Pos(), d.fn, d.args)
	ok = true
}

func (fr *frame) runDefers() {
	for d := fr.defers; d != nil; d = d.tail {
		fr.runDefer(d)
	}
	fr.defers = nil
	if fr.panicking {
		panic(fr.panic)
	}
}

func (i *interpreter) lookupMethod(typ types.Type, meth *types.Func) *ssa.Function {
	return i.prog.LookupMethod(typ, meth.Pkg(), meth.Name())
}

func rtPanic(msg string) {
	panic(targetPanic{v: runtimeError(msg)})
}

// ---------------------------------------------------------------- instructions

func (i *interpreter) visitInstr(fr *frame, instr ssa.Instruction) continuation {
	i.steps++
	if i.steps&0xffff == 0 && i.ex.run.pastHardStop() {
		panic(pathAbort{"deadline", "time budget exhausted"})
	}
	if i.steps > i.maxSteps {
		panic(pathAbort{"steps", fmt.Sprintf("step budget %d exhausted in %s", i.maxSteps, fr.fn)})
	}
	fr.curInstr = instr
	switch instr := instr.(type) {
	case *ssa.DebugRef:

	case *ssa.UnOp:
		fr.env[instr] = i.unop(fr, instr, fr.get(instr.X))

	case *ssa.BinOp:
		y := fr.get(instr.Y)
		if instr.Op == token.SHL || instr.Op == token.SHR {
			if k, ok := scalarKind(instr.Y.Type()); ok && k.signed {
				yt := y.(*Term)
				if i.decide(i.b.Cmp(OSLt, yt, i.b.BV(yt.sort, 0))) {
					rtPanic("negative shift amount")
				}
			}
		}
		fr.env[instr] = i.binop(instr.Op, instr.X.Type(), fr.get(instr.X), y)

	case *ssa.Call:
		fn, args := i.prepareCall(fr, &instr.Call)
		fr.env[instr] = i.call(fr, instr.Pos(), fn, args)

	case *ssa.ChangeInterface:
		fr.env[instr] = fr.get(instr.X)

	case *ssa.ChangeType:
		fr.env[instr] = fr.get(instr.X)

	case *ssa.Convert:
		fr.env[instr] = i.conv(instr.Type(), instr.X.Type(), fr.get(instr.X))

	case *ssa.MultiConvert:
		fr.env[instr] = i.conv(instr.Type(), instr.X.Type(), fr.get(instr.X))

	case *ssa.SliceToArrayPointer:
		x := fr.get(instr.X).([]value)
		n := instr.Type().Underlying().(*types.Pointer).Elem().Underlying().(*types.Array).Len()
		if int64(len(x)) < n {
			rtPanic("cannot convert slice with length to array or pointer to array with greater length")
		}
		if x == nil {
			fr.env[instr] = (*value)(nil)
		} else {
			// NB: no longer aliases the slice's backing store; writes through the
			// array pointer are not supported.
			var v value = array(x[:n:n])
			fr.env[instr] = &v
		}

	case *ssa.MakeInterface:
		fr.env[instr] = iface{t: instr.X.Type(), v: copyVal(fr.get(instr.X))}

	case *ssa.Extract:
		fr.env[instr] = fr.get(instr.Tuple).(tuple)[instr.Index]

	case *ssa.Slice:
		w := func(v ssa.Value) value {
			if v == nil {
				return nil
			}
			return i.widen(fr.get(v), v.Type())
		}
		fr.env[instr] = i.slice(fr.get(instr.X), w(instr.Low), w(instr.High), w(instr.Max))

	case *ssa.Return:
		switch len(instr.Results) {
		case 0:
		case 1:
			fr.result = fr.get(instr.Results[0])
		default:
			var res []value
			for _, r := range instr.Results {
				res = append(res, fr.get(r))
			}
			fr.result = tuple(res)
		}
		fr.block = nil
		return kReturn

	case *ssa.RunDefers:
		fr.runDefers()

	case *ssa.Panic:
		panic(targetPanic{fr.get(instr.X)})

	case *ssa.Send:
		ch := fr.get(instr.Chan).(*schan)
		i.chanSend(ch, fr.get(instr.X))

	case *ssa.Store:
		i.store(fr.get(instr.Addr).(*value), fr.get(instr.Val))

	case *ssa.If:
		succ := 1
		if i.decide(fr.get(instr.Cond).(*Term)) {
			succ = 0
		}
		fr.prevBlock, fr.block = fr.block, fr.block.Succs[succ]
		return kJump

	case *ssa.Jump:
		fr.prevBlock, fr.block = fr.block, fr.block.Succs[0]
		return kJump

	case *ssa.Defer:
		fn, args := i.prepareCall(fr, &instr.Call)
		defers := &fr.defers
		if instr.DeferStack != nil {
			if into := fr.get(instr.DeferStack); into != nil {
				defers = into.(**deferred)
			}
		}
		*defers = &deferred{fn: fn, args: args, instr: instr, tail: *defers}

	case *ssa.Go:
		// Sequentialised: the goroutine runs to completion at the spawn point.
		fn, args := i.prepareCall(fr, &instr.Call)
		i.goDepth++
		func() {
			defer func() { i.goDepth-- }()
			i.call(fr, instr.Pos(), fn, args)
		}()

	case *ssa.MakeChan:
		fr.env[instr] = &schan{cap: int(i.concInt(fr.get(instr.Size), "chan size"))}

	case *ssa.Alloc:
		var addr *value
		if instr.Heap {
			addr = new(value)
			fr.env[instr] = addr
		} else {
			addr = fr.env[instr].(*value)
		}
		*addr = i.zero(deref(instr.Type()))

	case *ssa.MakeSlice:
		c := i.concInt(i.widen(fr.get(instr.Cap), instr.Cap.Type()), "make cap")
		l := i.concInt(i.widen(fr.get(instr.Len), instr.Len.Type()), "make len")
		if l < 0 || c < l || c > 1<<28 {
			rtPanic("makeslice: len out of range")
		}
		sl := make([]value, c)
		tElt := instr.Type().Underlying().(*types.Slice).Elem()
		if _, ok := scalarKind(tElt); ok {
			z := i.zero(tElt)
			for k := range sl {
				sl[k] = z
			}
		} else {
			for k := range sl {
				sl[k] = i.zero(tElt)
			}
		}
		fr.env[instr] = sl[:l]

	case *ssa.MakeMap:
		fr.env[instr] = i.makeMap(instr.Type().Underlying().(*types.Map).Key())

	case *ssa.Range:
		fr.env[instr] = i.rangeIter(fr.get(instr.X), instr.X.Type())

	case *ssa.Next:
		fr.env[instr] = fr.get(instr.Iter).(iter).next()

	case *ssa.FieldAddr:
		p := fr.get(instr.X).(*value)
		if p == nil {
			nilDeref()
		}
		fr.env[instr] = &(*p).(structure)[instr.Field]

	case *ssa.Field:
		fr.env[instr] = copyVal(fr.get(instr.X).(structure)[instr.Field])

	case *ssa.IndexAddr:
		x := fr.get(instr.X)
		switch x := x.(type) {
		case []value:
			if r := i.symElemRef(instr, x, i.widen(fr.get(instr.Index), instr.Index.Type())); r != nil {
				fr.env[instr] = r
				break
			}
			idx := i.index(i.widen(fr.get(instr.Index), instr.Index.Type()), len(x))
			fr.env[instr] = &x[idx]
		case *value:
			if x == nil {
				nilDeref()
			}
			a := (*x).(array)
			if r := i.symElemRef(instr, a, i.widen(fr.get(instr.Index), instr.Index.Type())); r != nil {
				fr.env[instr] = r
				break
			}
			idx := i.index(i.widen(fr.get(instr.Index), instr.Index.Type()), len(a))
			fr.env[instr] = &a[idx]
		default:
			panic(fmt.Sprintf("unexpected x type in IndexAddr: %T", x))
		}

	case *ssa.Index:
		x := fr.get(instr.X)
		switch x := x.(type) {
		case array:
			fr.env[instr] = i.indexArray(x, i.widen(fr.get(instr.Index), instr.Index.Type()))
		case string, symstr:
			idx := i.index(i.widen(fr.get(instr.Index), instr.Index.Type()), strLen(x))
			fr.env[instr] = i.strAt(x, idx)
		default:
			panic(fmt.Sprintf("unexpected x type in Index: %T", x))
		}

	case *ssa.Lookup:
		fr.env[instr] = i.lookup(instr, fr.get(instr.X), fr.get(instr.Index))

	case *ssa.MapUpdate:
		m := fr.get(instr.Map).(*smap)
		i.mapInsert(m, fr.get(instr.Key), copyVal(fr.get(instr.Value)))

	case *ssa.TypeAssert:
		fr.env[instr] = i.typeAssert(instr, fr.get(instr.X).(iface))

	case *ssa.MakeClosure:
		var bindings []value
		for _, binding := range instr.Bindings {
			bindings = append(bindings, fr.get(binding))
		}
		fr.env[instr] = &closure{instr.Fn.(*ssa.Function), bindings}

	case *ssa.Phi:
		panic("unreachable: phi")

	case *ssa.Select:
		fr.env[instr] = i.selectOp(fr, instr)

	default:
		panic(fmt.Sprintf("unexpected instruction: %T", instr))
	}
	return kNext
}

func deref(t types.Type) types.Type {
	if p, ok := t.Underlying().(*types.Pointer); ok {
		return p.Elem()
	}
	panic("deref of non-pointer " + t.String())
}

// widen extends an integer operand to 64 bits according to the signedness of
// its static type, so that indices and sizes are compared as Go does.
func (i *interpreter) widen(v value, t types.Type) value {
	x, ok := v.(*Term)
	if !ok || x.sort == SBV64 {
		return v
	}
	if k, ok := scalarKind(t); ok && !k.signed {
		return i.b.ZExt(x, SBV64)
	}
	return i.b.SExt(x, SBV64)
}

// index bounds-checks an index and returns it as an int, forking on the
// feasible values of a symbolic index.
func (i *interpreter) index(idx value, n int) int {
	t := idx.(*Term)
	if t.op == OConst {
		v := t.ConstS64()
		if v < 0 || v >= int64(n) {
			rtPanic(fmt.Sprintf("index out of range [%d] with length %d", v, n))
		}
		return int(v)
	}
	// in range? (operands were widened to 64 bits by the caller; a negative
	// index is a huge unsigned value)
	w := t
	if w.sort != SBV64 {
		w = i.b.ZExt(t, SBV64)
	}
	inRange := i.b.Cmp(OULt, w, i.b.BV(SBV64, uint64(n)))
	if !i.decide(inRange) {
		rtPanic(fmt.Sprintf("index out of range [symbolic] with length %d", n))
	}
	return int(i.concretize(t, "index"))
}

// symRef is the address of a[idx] for a symbolic idx; it can only be loaded.
type symRef struct {
	a   []value
	idx *Term
}

// symElemRef returns a load-only reference when a table of scalars is
// indexed by a symbolic value and the address is only ever loaded from.
func (i *interpreter) symElemRef(instr *ssa.IndexAddr, a []value, idx value) value {
	t := idx.(*Term)
	if t.op == OConst || len(a) == 0 || len(a) > 4096 {
		return nil
	}
	refs := instr.Referrers()
	if refs == nil || len(*refs) == 0 {
		return nil
	}
	for _, r := range *refs {
		u, ok := r.(*ssa.UnOp)
		if !ok || u.Op != token.MUL {
			return nil
		}
	}
	for _, e := range a {
		if _, ok := e.(*Term); !ok {
			return nil
		}
	}
	w := t
	if w.sort != SBV64 {
		w = i.b.ZExt(t, SBV64)
	}
	if !i.decide(i.b.Cmp(OULt, w, i.b.BV(SBV64, uint64(len(a))))) {
		rtPanic(fmt.Sprintf("index out of range [symbolic] with length %d", len(a)))
	}
	return &symRef{a: a, idx: t}
}

// indexArray reads a[idx]; a symbolic index into an array of constants
// becomes an ite chain over runs of equal values.
func (i *interpreter) indexArray(a array, idx value) value {
	t := idx.(*Term)
	if t.op == OConst {
		return copyVal(a[i.index(idx, len(a))])
	}
	allScalar := true
	for _, e := range a {
		if _, ok := e.(*Term); !ok {
			allScalar = false
			break
		}
	}
	if !allScalar || len(a) == 0 || len(a) > 4096 {
		return copyVal(a[i.index(idx, len(a))])
	}
	w := i.b.ZExt(t, SBV64)
	inRange := i.b.Cmp(OULt, w, i.b.BV(SBV64, uint64(len(a))))
	if !i.decide(inRange) {
		rtPanic(fmt.Sprintf("index out of range [symbolic] with length %d", len(a)))
	}
	return i.iteTable(a, t)
}

// iteTable builds ite(idx < r1, v0, ite(idx < r2, v1, ...)) over runs of
// equal table values.
func (i *interpreter) iteTable(a []value, idx *Term) *Term {
	type run struct {
		end int // exclusive
		v   *Term
	}
	var runs []run
	for k, e := range a {
		t := e.(*Term)
		if n := len(runs); n > 0 {
			last := runs[n-1].v
			if last == t || (last.op == OConst && t.op == OConst && sameConst(last, t)) {
				runs[n-1].end = k + 1
				continue
			}
		}
		runs = append(runs, run{k + 1, t})
	}
	res := runs[len(runs)-1].v
	for k := len(runs) - 2; k >= 0; k-- {
		c := i.b.Cmp(OULt, idx, i.b.BV(idx.sort, uint64(runs[k].end)))
		res = i.b.Ite(c, runs[k].v, res)
	}
	return res
}

func (i *interpreter) chanSend(ch *schan, v value) {
	if ch == nil {
		i.unsupported("send on nil channel (blocks forever)")
	}
	if ch.closed {
		rtPanic("send on closed channel")
	}
	if len(ch.q) >= ch.cap {
		if i.goDepth == 0 {
			// Every goroutine spawned so far has run to completion, so nobody is
			// left who could receive: the main goroutine blocks forever.
			panic(pathAbort{"deadlock", fmt.Sprintf("the main goroutine blocks on a channel send (capacity %d) with no other goroutine left to receive", ch.cap)})
		}
		i.unsupported("channel send would block (cap %d); goroutines are sequentialised", ch.cap)
	}
	ch.q = append(ch.q, v)
	i.logUndo(func() { ch.q = ch.q[:len(ch.q)-1] })
}

func (i *interpreter) chanRecv(ch *schan, elem types.Type) (value, bool) {
	if ch == nil {
		i.unsupported("receive from nil channel (blocks forever)")
	}
	if len(ch.q) == 0 {
		if ch.closed {
			return i.zero(elem), false
		}
		i.unsupported("channel receive would block; goroutines are sequentialised")
	}
	v := ch.q[0]
	old := ch.q
	ch.q = ch.q[1:]
	i.logUndo(func() { ch.q = old })
	return v, true
}

func (i *interpreter) selectOp(fr *frame, instr *ssa.Select) value {
	// pick the first ready case; default if none
	chosen := -1
	var recv value
	recvOk := false
	for k, st := range instr.States {
		ch := fr.get(st.Chan).(*schan)
		if ch == nil {
			continue
		}
		if st.Dir == types.RecvOnly {
			if len(ch.q) > 0 || ch.closed {
				recv, recvOk = i.chanRecv(ch, st.Chan.Type().Underlying().(*types.Chan).Elem())
				chosen = k
				break
			}
		} else if len(ch.q) < ch.cap && !ch.closed {
			i.chanSend(ch, fr.get(st.Send))
			chosen = k
			break
		}
	}
	if chosen < 0 && instr.Blocking {
		i.unsupported("select would block; goroutines are sequentialised")
	}
	r := tuple{i.b.BV(SBV64, uint64(int64(chosen))), i.b.Bool(recvOk)}
	for k, st := range instr.States {
		if st.Dir == types.RecvOnly {
			var v value
			if k == chosen && recvOk {
				v = recv
			} else {
				v = i.zero(st.Chan.Type().Underlying().(*types.Chan).Elem())
			}
			r = append(r, v)
		}
	}
	return r
}

// ---------------------------------------------------------------- calls

func (i *interpreter) prepareCall(fr *frame, call *ssa.CallCommon) (fn value, args []value) {
	v := fr.get(call.Value)
	if call.Method == nil {
		fn = v
	} else {
		recv := v.(iface)
		if recv.t == nil {
			nilDeref()
		}
		f := i.lookupMethod(recv.t, call.Method)
		if f == nil {
			panic(fmt.Sprintf("method set for dynamic type %v does not contain %s", recv.t, call.Method))
		}
		fn = f
		args = append(args, copyVal(recv.v))
	}
	for _, arg := range call.Args {
		args = append(args, fr.get(arg))
	}
	return
}

func (i *interpreter) call(caller *frame, callpos token.Pos, fn value, args []value) value {
	switch fn := fn.(type) {
	case *ssa.Function:
		if fn == nil {
			nilDeref()
		}
		return i.callSSA(caller, callpos, fn, args, nil)
	case *closure:
		if fn == nil {
			nilDeref()
		}
		return i.callSSA(caller, callpos, fn.Fn, args, fn.Env)
	case *ssa.Builtin:
		return i.callBuiltin(caller, callpos, fn, args)
	case *hostFunc:
		return fn.f(caller, args)
	}
	panic(fmt.Sprintf("cannot call %T", fn))
}

// hostFunc is a function value implemented by the engine.
type hostFunc struct {
	name string
	f    func(fr *frame, args []value) value
}

func (i *interpreter) callSSA(caller *frame, callpos token.Pos, fn *ssa.Function, args []value, env []value) value {
	depth := 0
	if caller != nil {
		depth = caller.depth + 1
	}
	if depth > i.maxDepth {
		panic(pathAbort{"depth", "call depth exceeded in " + fn.String()})
	}
	fr := &frame{i: i, caller: caller, fn: fn, depth: depth}
	if fn.Parent() == nil && !i.bypassIntrinsic {
		if ext := i.intrinsicFor(fn); ext != nil {
			return ext(fr, args)
		}
	}
	i.bypassIntrinsic = false
	if fn.Blocks == nil {
		i.unsupported("no code for function %s", fn)
	}
	if fn.TypeParams().Len() > 0 && len(fn.TypeArgs()) == 0 {
		i.unsupported("uninstantiated generic %s", fn)
	}
	i.funcsSeen[fn] = true
	i.lastFrame = fr

	fr.env = make(map[ssa.Value]value, 16)
	fr.block = fn.Blocks[0]
	fr.locals = make([]value, len(fn.Locals))
	for k, l := range fn.Locals {
		fr.locals[k] = i.zero(deref(l.Type()))
		fr.env[l] = &fr.locals[k]
	}
	for k, p := range fn.Params {
		fr.env[p] = args[k]
	}
	for k, fv := range fn.FreeVars {
		fr.env[fv] = env[k]
	}
	for fr.block != nil {
		i.runFrame(fr)
	}
	i.lastFrame = caller
	return fr.result
}

func (i *interpreter) runFrame(fr *frame) {
	defer func() {
		if fr.block == nil {
			return // normal return
		}
		r := recover()
		switch r := r.(type) {
		case pathAbort:
			panic(r)
		case engineError:
			panic(r)
		case targetPanic:
		case runtime.Error:
			// a Go run-time error inside the engine: engine defect or unsupported value shape
			panic(pathAbort{"unsupported", fmt.Sprintf("engine runtime error in %s at %s: %v", fr.fn, i.where(fr), r)})
		default:
			panic(pathAbort{"unsupported", fmt.Sprintf("engine panic in %s at %s: %v", fr.fn, i.where(fr), r)})
		}
		fr.panicking = true
		fr.panic = r
		fr.runDefers()
		fr.block = fr.fn.Recover
		if fr.block == nil {
			// recovered in a function without named results: return zero values
			fr.result = i.zeroResults(fr.fn)
		}
	}()

	for {
		nonPhis := i.executePhis(fr)
		for _, instr := range nonPhis {
			if i.visitInstr(fr, instr) == kReturn {
				return
			}
		}
	}
}

func (i *interpreter) zeroResults(fn *ssa.Function) value {
	res := fn.Signature.Results()
	switch res.Len() {
	case 0:
		return nil
	case 1:
		return i.zero(res.At(0).Type())
	}
	t := make(tuple, res.Len())
	for k := range t {
		t[k] = i.zero(res.At(k).Type())
	}
	return t
}

func (i *interpreter) where(fr *frame) string {
	if fr == nil || fr.curInstr == nil {
		return "?"
	}
	pos := fr.curInstr.Pos()
	if pos == token.NoPos {
		// search backwards in the block for a position
		return fmt.Sprintf("%s (%v)", fr.fn.Name(), fr.curInstr)
	}
	p := i.prog.Fset.Position(pos)
	return fmt.Sprintf("%s:%d", shortPath(p.Filename), p.Line)
}

func shortPath(p string) string {
	if k := strings.LastIndex(p, "/src/"); k >= 0 && strings.Contains(p, "go") {
		return p[k+5:]
	}
	return strings.TrimPrefix(p, "/repo/")
}

func (i *interpreter) executePhis(fr *frame) []ssa.Instruction {
	firstNonPhi := -1
	for k, instr := range fr.block.Instrs {
		if _, ok := instr.(*ssa.Phi); !ok {
			firstNonPhi = k
			break
		}
	}
	nonPhis := fr.block.Instrs[firstNonPhi:]
	if firstNonPhi > 0 {
		phis := fr.block.Instrs[:firstNonPhi]
		predIndex := slices.Index(fr.block.Preds, fr.prevBlock)
		fr.phitemps = fr.phitemps[:0]
		for _, phi := range phis {
			phi := phi.(*ssa.Phi)
			fr.phitemps = append(fr.phitemps, fr.get(phi.Edges[predIndex]))
		}
		for k, phi := range phis {
			fr.env[phi.(*ssa.Phi)] = fr.phitemps[k]
		}
	}
	return nonPhis
}

func (i *interpreter) doRecover(caller *frame) value {
	if caller != nil && !caller.panicking &&
		caller.caller != nil && caller.caller.panicking {
		caller.caller.panicking = false
		p := caller.caller.panic
		caller.caller.panic = nil
		switch p := p.(type) {
		case targetPanic:
			if re, ok := p.v.(runtimeError); ok {
				return iface{i.runtimeErrorType, string(re)}
			}
			return p.v
		default:
			panic(fmt.Sprintf("unexpected panic type %T in target call to recover()", p))
		}
	}
	return iface{}
}

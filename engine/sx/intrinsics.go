package sx

// intrinsics.go: functions that are not interpreted from their SSA bodies.

import (
	"fmt"
	"go/types"
	"math"
	"regexp"
	"strings"
	"time"
	"unicode"

	"golang.org/x/tools/go/ssa"
)

type intrinsicFn func(fr *frame, args []value) value

var intrinsics = map[string]intrinsicFn{}

// packages whose initialisers are executed (everything in the target module
// is always executed).
var initAllow = map[string]bool{
	"errors": false, "io": true, "bufio": true, "bytes": true, "strings": true, "strconv": true,
	"unicode": true, "unicode/utf8": true, "sort": true, "slices": true, "math": true,
	"math/bits": true, "cmp": true, "encoding/csv": true, "path/filepath": false, "io/fs": false,
	"maps": true, "container/heap": true, "math/rand": true, "unicode/utf16": true,
}

// packages whose functions return zero values while package initialisers run
var blackboxInit = map[string]bool{
	"text/template": true, "html/template": true, "database/sql": true, "net/http": true, "expvar": true,
	"flag": true, "log": true, "os": true, "time": true, "mime": true, "github.com/google/safehtml/template": true,
	"regexp/syntax": true, "reflect": true, "encoding/json": true, "google.golang.org/appengine": true,
}

func (i *interpreter) intrinsicFor(fn *ssa.Function) intrinsicFn {
	if js := i.ex.job.Stubs; len(js) > 0 {
		// per-job stubs are resolved on every call (not cached across jobs)
		name, ok := i.fnNames[fn]
		if !ok {
			name = fn.String()
			i.fnNames[fn] = name
		}
		if target, ok := js[name]; ok {
			if st := i.ex.run.stubTarget(name, target); st != nil {
				return st
			}
		}
	}
	if f, ok := i.intrinsicCache[fn]; ok {
		return f
	}
	var res intrinsicFn
	name := fn.String()
	if o := fn.Origin(); o != nil {
		name = o.String()
	}
	if f, ok := intrinsics[name]; ok {
		res = f
	} else if fn.Pkg != nil && strings.HasPrefix(fn.Name(), "vnd") && fn.Signature.Recv() == nil {
		if f, ok := vndIntrinsics[fn.Name()]; ok {
			res = f
		}
	} else if fn.Name() == "init" && fn.Synthetic != "" && fn.Pkg != nil && fn.Signature.Recv() == nil {
		path := fn.Pkg.Pkg.Path()
		if !i.ex.run.initPackage(path) {
			res = func(fr *frame, args []value) value { return nil }
		}
	}
	if res == nil && i.ex.job != nil && i.ex.job.Harness == "<init>" && fn.Pkg != nil &&
		!i.ex.run.initPackage(fn.Pkg.Pkg.Path()) && blackboxInit[fn.Pkg.Pkg.Path()] {
		// During package initialisation, calls into packages outside the model
		// (templates, SQL, HTTP...) return zero values.
		f := fn
		return func(fr *frame, args []value) value { return fr.i.zeroResults(f) }
	}
	if res == nil && fn.Blocks == nil && fn.Pkg != nil {
		switch fn.Pkg.Pkg.Path() {
		case "math":
			res = mathNative(fn.Name())
		}
	}
	if st := i.ex.run.stubFor(name); st != nil && res == nil {
		res = st
	}
	i.intrinsicCache[fn] = res
	return res
}

func init() {
	for k, v := range map[string]intrinsicFn{
		// ---- internal/bytealg
		"internal/bytealg.IndexByte":       extIndexByte,
		"internal/bytealg.IndexByteString": extIndexByte,
		"internal/bytealg.Equal":           extBytesEqual,
		"internal/bytealg.Compare":         extCompare,
		"internal/bytealg.CompareString":   extCompare,
		"internal/bytealg.Count":           extCount,
		"internal/bytealg.CountString":     extCount,
		"internal/bytealg.Index":           extIndex,
		"internal/bytealg.IndexString":     extIndex,
		"internal/bytealg.LastIndexByte":         extLastIndexByte,
		"internal/bytealg.LastIndexByteString":   extLastIndexByte,
		"internal/bytealg.MakeNoZero": func(fr *frame, args []value) value {
			n := fr.i.concInt(args[0], "MakeNoZero")
			s := make([]value, n)
			z := fr.i.zeroScalar(SBV8)
			for k := range s {
				s[k] = z
			}
			return s
		},
		"internal/stringslite.Index": nil,
		"internal/stringslite.Clone": func(fr *frame, args []value) value { return args[0] },
		"strings.Clone":              func(fr *frame, args []value) value { return args[0] },
		"strings.Compare":            extCompare,
		"bytes.Compare":              extCompare,
		"internal/abi.NoEscape":      func(fr *frame, args []value) value { return args[0] },
		"internal/abi.FuncPCABIInternal": func(fr *frame, args []value) value { return fr.i.b.BV(SBV64, 0) },

		// ---- runtime
		"runtime.GOMAXPROCS": func(fr *frame, args []value) value {
			n := fr.i.gomaxprocs
			if n == 0 {
				n = 4
			}
			return fr.i.b.BV(SBV64, uint64(n))
		},
		"runtime.NumCPU":       func(fr *frame, args []value) value { return fr.i.b.BV(SBV64, 4) },
		"runtime.KeepAlive":    func(fr *frame, args []value) value { return nil },
		"runtime.SetFinalizer": func(fr *frame, args []value) value { return nil },
		"runtime.Gosched":      func(fr *frame, args []value) value { return nil },
		"runtime.GC":           func(fr *frame, args []value) value { return nil },

		// ---- math
		"math.Float64bits":     extFloatBits,
		"math.Float32bits":     extFloatBits,
		"math.Float64frombits": func(fr *frame, args []value) value { return fr.i.b.FFromBits(args[0].(*Term)) },
		"math.Float32frombits": func(fr *frame, args []value) value { return fr.i.b.FFromBits(args[0].(*Term)) },
		"math.Abs":             func(fr *frame, args []value) value { return fr.i.b.FUn(OFAbs, args[0].(*Term)) },
		"math.Sqrt":            func(fr *frame, args []value) value { return fr.i.b.FUn(OFSqrt, args[0].(*Term)) },
		"math.sqrt":            func(fr *frame, args []value) value { return fr.i.b.FUn(OFSqrt, args[0].(*Term)) },
		"math.Floor":           func(fr *frame, args []value) value { return fr.i.b.FRound(args[0].(*Term), 1) },
		"math.Ceil":            func(fr *frame, args []value) value { return fr.i.b.FRound(args[0].(*Term), 2) },
		"math.Trunc":           func(fr *frame, args []value) value { return fr.i.b.FRound(args[0].(*Term), 3) },
		"math.RoundToEven":     func(fr *frame, args []value) value { return fr.i.b.FRound(args[0].(*Term), 0) },
		"math.IsNaN":           func(fr *frame, args []value) value { return fr.i.b.FUn(OFIsNaN, args[0].(*Term)) },
		"math.IsInf":           extIsInf,
		"math.Signbit":         extSignbit,
		"math.Copysign":        extCopysign,
		"math.Modf":            extModf,
		"math.Max":             func(fr *frame, args []value) value { return extMathMinMax(fr, args, false) },
		"math.Min":             func(fr *frame, args []value) value { return extMathMinMax(fr, args, true) },
		"math.FMA":             nil,

		// ---- math/bits
		"math/bits.Mul64": func(fr *frame, args []value) value {
			hi, lo := fr.i.b.Mul64(args[0].(*Term), args[1].(*Term))
			return tuple{hi, lo}
		},
		"math/bits.Len64":           func(fr *frame, args []value) value { return extBitsLen(fr, args[0].(*Term)) },
		"math/bits.Len32":           func(fr *frame, args []value) value { return extBitsLen(fr, args[0].(*Term)) },
		"math/bits.Len":             func(fr *frame, args []value) value { return extBitsLen(fr, args[0].(*Term)) },
		"math/bits.Len8":            func(fr *frame, args []value) value { return extBitsLen(fr, args[0].(*Term)) },
		"math/bits.Len16":           func(fr *frame, args []value) value { return extBitsLen(fr, args[0].(*Term)) },
		"math/bits.LeadingZeros64":  func(fr *frame, args []value) value { return extLeadingZeros(fr, args[0].(*Term)) },
		"math/bits.LeadingZeros32":  func(fr *frame, args []value) value { return extLeadingZeros(fr, args[0].(*Term)) },
		"math/bits.LeadingZeros":    func(fr *frame, args []value) value { return extLeadingZeros(fr, args[0].(*Term)) },
		"math/bits.TrailingZeros64": func(fr *frame, args []value) value { return extTrailingZeros(fr, args[0].(*Term)) },
		"math/bits.TrailingZeros32": func(fr *frame, args []value) value { return extTrailingZeros(fr, args[0].(*Term)) },
		"math/bits.TrailingZeros":   func(fr *frame, args []value) value { return extTrailingZeros(fr, args[0].(*Term)) },

		// ---- unicode/utf8: ASCII fast path, then the real body
		"unicode/utf8.DecodeRune":         extDecodeRune,
		"unicode/utf8.DecodeRuneInString": extDecodeRune,

		// ---- unicode
		"unicode.IsSpace":   unicodePred("IsSpace", unicode.IsSpace),
		"unicode.IsUpper":   unicodePred("IsUpper", unicode.IsUpper),
		"unicode.IsLower":   unicodePred("IsLower", unicode.IsLower),
		"unicode.IsDigit":   unicodePred("IsDigit", unicode.IsDigit),
		"unicode.IsLetter":  unicodePred("IsLetter", unicode.IsLetter),
		"unicode.IsGraphic": unicodePred("IsGraphic", unicode.IsGraphic),
		"unicode.IsPrint":   unicodePred("IsPrint", unicode.IsPrint),
		"unicode.IsPunct":   unicodePred("IsPunct", unicode.IsPunct),
		"unicode.IsControl": unicodePred("IsControl", unicode.IsControl),
		"unicode.IsNumber":  unicodePred("IsNumber", unicode.IsNumber),
		"strconv.IsPrint":   unicodePred("strconv.IsPrint", strconvIsPrint),

		// ---- sync (sequential model)
		"(*sync.Mutex).Lock":      extNop,
		"(*sync.Mutex).Unlock":    extNop,
		"(*sync.Mutex).TryLock":   func(fr *frame, args []value) value { return fr.i.b.True },
		"(*sync.RWMutex).Lock":    extNop,
		"(*sync.RWMutex).Unlock":  extNop,
		"(*sync.RWMutex).RLock":   extNop,
		"(*sync.RWMutex).RUnlock": extNop,
		"(*sync.WaitGroup).Add":   extNop,
		"(*sync.WaitGroup).Done":  extNop,
		"(*sync.WaitGroup).Wait":  extNop,
		"(*sync.Pool).Put":        extPoolPut,
		"(*sync.Pool).Get":        extPoolGet,
		"(*sync.Once).Do":         extOnceDo,
		"(*sync.Map).Load":        extSyncMapLoad,
		"(*sync.Map).Store":       extSyncMapStore,
		"(*sync.Map).LoadOrStore": extSyncMapLoadOrStore,
		"(*sync.Map).Delete":      extSyncMapDelete,
		"(*sync.Map).Range":       extSyncMapRange,

		"sync/atomic.LoadInt32":   extAtomicLoad,
		"sync/atomic.LoadInt64":   extAtomicLoad,
		"sync/atomic.LoadUint32":  extAtomicLoad,
		"sync/atomic.LoadUint64":  extAtomicLoad,
		"sync/atomic.LoadUintptr": extAtomicLoad,
		"sync/atomic.LoadPointer": extAtomicLoad,
		"sync/atomic.StoreInt32":  extAtomicStore,
		"sync/atomic.StoreInt64":  extAtomicStore,
		"sync/atomic.StoreUint32": extAtomicStore,
		"sync/atomic.StoreUint64": extAtomicStore,
		"sync/atomic.StorePointer": extAtomicStore,
		"sync/atomic.AddInt32":    extAtomicAdd,
		"sync/atomic.AddInt64":    extAtomicAdd,
		"sync/atomic.AddUint32":   extAtomicAdd,
		"sync/atomic.AddUint64":   extAtomicAdd,
		"sync/atomic.CompareAndSwapInt32":  extAtomicCAS,
		"sync/atomic.CompareAndSwapInt64":  extAtomicCAS,
		"sync/atomic.CompareAndSwapUint32": extAtomicCAS,
		"sync/atomic.CompareAndSwapUint64": extAtomicCAS,

		// ---- hash/maphash (uninterpreted function of the bytes written)
		"hash/maphash.MakeSeed":            func(fr *frame, args []value) value { return structure{fr.i.b.BV(SBV64, 1)} },
		"(*hash/maphash.Hash).SetSeed":     extNop,
		"(*hash/maphash.Hash).WriteString": extMaphashWrite,
		"(*hash/maphash.Hash).Write":       extMaphashWrite,
		"(*hash/maphash.Hash).WriteByte":   extMaphashWrite,
		"(*hash/maphash.Hash).Sum64":       extMaphashSum,
		"(*hash/maphash.Hash).Reset":       extMaphashReset,

		// ---- strings.Builder (uses unsafe)
		"(*strings.Builder).String":    extBuilderString,
		"(*strings.Builder).copyCheck": extNop,

		// ---- sort via reflection
		"sort.Slice":       func(fr *frame, args []value) value { return extSortSlice(fr, args, "pdqsort_func") },
		"sort.SliceStable": func(fr *frame, args []value) value { return extSortSlice(fr, args, "stable_func") },

		// ---- errors
		"errors.Is": extErrorsIs,

		// ---- regexp (native, concrete arguments only)
		"regexp.Compile":                       extRegexpCompile,
		"regexp.MustCompile":                   extRegexpCompile,
		"(*regexp.Regexp).MatchString":         extRegexpMatch,
		"(*regexp.Regexp).Match":               extRegexpMatch,
		"(*regexp.Regexp).String":              extRegexpString,
		"(*regexp.Regexp).FindStringSubmatch":  extRegexpFindSub,
		"(*regexp.Regexp).FindStringSubmatchIndex": extRegexpFindSubIdx,

		// ---- os (environment stub: files registered by the harness)
		"os.Open":           extOsOpen,
		"(*os.File).Read":   extFileRead,
		"(*os.File).Close":  func(fr *frame, args []value) value { return iface{} },
		"os.Create":         extOsCreate,
		"os.MkdirAll":       func(fr *frame, args []value) value { return iface{} },
		"os.Remove":         extOsRemove,
		"(*os.File).Name":   extFileName,
		// writes to a file made by os.Create go to the file registry; writes to
		// os.Stdout/os.Stderr (diagnostics) are discarded
		"(*os.File).Write": extFileWrite,
		"(*os.File).WriteString": func(fr *frame, args []value) value {
			return tuple{fr.i.b.BV(SBV64, uint64(strLen(args[1]))), iface{}}
		},

		// ---- time (native on concrete arguments; time.Time is an opaque host value)
		"time.Parse":           extTimeParse,
		"time.ParseInLocation": extTimeParse,
		"time.Now":             func(fr *frame, args []value) value { return native{time.Unix(1790000000, 0).UTC()} }, // a fixed instant: the clock is not an input of any harness
		"time.Since":           func(fr *frame, args []value) value { return fr.i.b.BV(SBV64, 0) },
		"(time.Time).UTC":      func(fr *frame, args []value) value { return native{hostTime(fr, args[0]).UTC()} },
		"(time.Time).Format":   func(fr *frame, args []value) value { return hostTime(fr, args[0]).Format(fr.i.concreteArg(args[1], "time layout")) },
		"(time.Time).String":   func(fr *frame, args []value) value { return hostTime(fr, args[0]).String() },
		"(time.Time).Unix":     func(fr *frame, args []value) value { return fr.i.b.BV(SBV64, uint64(hostTime(fr, args[0]).Unix())) },
		"(time.Time).UnixNano": func(fr *frame, args []value) value { return fr.i.b.BV(SBV64, uint64(hostTime(fr, args[0]).UnixNano())) },
		"(time.Time).Before":   func(fr *frame, args []value) value { return fr.i.b.Bool(hostTime(fr, args[0]).Before(hostTime(fr, args[1]))) },
		"(time.Time).After":    func(fr *frame, args []value) value { return fr.i.b.Bool(hostTime(fr, args[0]).After(hostTime(fr, args[1]))) },
		"(time.Time).Equal":    func(fr *frame, args []value) value { return fr.i.b.Bool(hostTime(fr, args[0]).Equal(hostTime(fr, args[1]))) },
		"(time.Time).IsZero":   func(fr *frame, args []value) value { return fr.i.b.Bool(hostTime(fr, args[0]).IsZero()) },

		// ---- fmt
		"fmt.Sprintf":  extSprintf,
		"fmt.Errorf":   extErrorf,
		"fmt.Fprintf":  extFprintf,
		"fmt.Sprint":   extSprint,
		"fmt.Sprintln": extSprintln,
		"fmt.Fprint":   extFprint,
		"fmt.Fprintln": extFprintln,
		"fmt.Printf":   extNop,
		"fmt.Println":  extNop,
		"fmt.Print":    extNop,
		"log.Printf":   extNop,
		"log.Print":    extNop,
		"log.Println":  extNop,
	} {
		if v != nil {
			intrinsics[k] = v
		}
	}
}

func extNop(fr *frame, args []value) value { return nil }

// ---------------------------------------------------------------- bytes

// seqOf views a string or []byte argument as a sequence of byte terms.
func (i *interpreter) seqOf(v value) []*Term {
	switch s := v.(type) {
	case string:
		return i.toSym(s)
	case symstr:
		return s
	case []value:
		r := make([]*Term, len(s))
		for k, e := range s {
			r[k] = e.(*Term)
		}
		return r
	}
	panic(fmt.Sprintf("seqOf: %T", v))
}

func intRes(fr *frame, n int) value { return fr.i.b.BV(SBV64, uint64(int64(n))) }

func extIndexByte(fr *frame, args []value) value {
	i := fr.i
	s := i.seqOf(args[0])
	c := args[1].(*Term)
	for k, b := range s {
		if i.decide(i.b.Eq(b, c)) {
			return intRes(fr, k)
		}
	}
	return intRes(fr, -1)
}

func extLastIndexByte(fr *frame, args []value) value {
	i := fr.i
	s := i.seqOf(args[0])
	c := args[1].(*Term)
	for k := len(s) - 1; k >= 0; k-- {
		if i.decide(i.b.Eq(s[k], c)) {
			return intRes(fr, k)
		}
	}
	return intRes(fr, -1)
}

func (i *interpreter) seqEq(a, b []*Term) *Term {
	if len(a) != len(b) {
		return i.b.False
	}
	r := i.b.True
	for k := range a {
		r = i.b.And(r, i.b.Eq(a[k], b[k]))
		if r == i.b.False {
			break
		}
	}
	return r
}

func extBytesEqual(fr *frame, args []value) value {
	return fr.i.seqEq(fr.i.seqOf(args[0]), fr.i.seqOf(args[1]))
}

func extCompare(fr *frame, args []value) value {
	i := fr.i
	a, b := i.seqOf(args[0]), i.seqOf(args[1])
	lt := i.strLess(symstr(a), symstr(b))
	eq := i.seqEq(a, b)
	bb := i.b
	return bb.Ite(lt, bb.BV(SBV64, ^uint64(0)), bb.Ite(eq, bb.BV(SBV64, 0), bb.BV(SBV64, 1)))
}

func extCount(fr *frame, args []value) value {
	i := fr.i
	s := i.seqOf(args[0])
	c := args[1].(*Term)
	n := 0
	for _, b := range s {
		if i.decide(i.b.Eq(b, c)) {
			n++
		}
	}
	return intRes(fr, n)
}

func extIndex(fr *frame, args []value) value {
	i := fr.i
	s, sub := i.seqOf(args[0]), i.seqOf(args[1])
	for k := 0; k+len(sub) <= len(s); k++ {
		if i.decide(i.seqEq(s[k:k+len(sub)], sub)) {
			return intRes(fr, k)
		}
	}
	return intRes(fr, -1)
}

// ---------------------------------------------------------------- math

func mathNative(name string) intrinsicFn {
	f1 := map[string]func(float64) float64{
		"archExp": math.Exp, "archLog": math.Log, "archFloor": math.Floor, "archCeil": math.Ceil, "archTrunc": math.Trunc,
		"archSqrt": math.Sqrt, "archExp2": math.Exp2, "archLog2": math.Log2, "archLog10": math.Log10,
		"archErf": math.Erf, "archErfc": math.Erfc, "archTan": math.Tan, "archSin": math.Sin, "archCos": math.Cos,
		"archAtan": math.Atan, "archAsin": math.Asin, "archAcos": math.Acos, "archTanh": math.Tanh, "archSinh": math.Sinh,
		"archCosh": math.Cosh, "archLog1p": math.Log1p, "archExpm1": math.Expm1, "archCbrt": math.Cbrt,
		"archAsinh": math.Asinh, "archAcosh": math.Acosh, "archAtanh": math.Atanh,
	}
	if f, ok := f1[name]; ok {
		return func(fr *frame, args []value) value {
			x := args[0].(*Term)
			if x.op != OConst {
				fr.i.unsupported("math.%s on a symbolic argument", name)
			}
			return fr.i.b.F64(f(x.ConstF64()))
		}
	}
	f2 := map[string]func(float64, float64) float64{
		"archPow": math.Pow, "archAtan2": math.Atan2, "archHypot": math.Hypot, "archMod": math.Mod,
		"archMax": math.Max, "archMin": math.Min,
	}
	if f, ok := f2[name]; ok {
		return func(fr *frame, args []value) value {
			x, y := args[0].(*Term), args[1].(*Term)
			if x.op != OConst || y.op != OConst {
				fr.i.unsupported("math.%s on a symbolic argument", name)
			}
			return fr.i.b.F64(f(x.ConstF64(), y.ConstF64()))
		}
	}
	return nil
}

func init() {
	// Transcendental functions: native when concrete, unsupported otherwise.
	for name, f := range map[string]func(float64) float64{
		"Exp": math.Exp, "Log": math.Log, "Log2": math.Log2, "Log10": math.Log10, "Erf": math.Erf, "Erfc": math.Erfc,
		"Exp2": math.Exp2, "Log1p": math.Log1p, "Expm1": math.Expm1, "Gamma": math.Gamma, "Cbrt": math.Cbrt,
		"Sin": math.Sin, "Cos": math.Cos, "Tan": math.Tan, "Atan": math.Atan, "Erfinv": math.Erfinv,
	} {
		name, f := name, f
		intrinsics["math."+name] = func(fr *frame, args []value) value {
			x := args[0].(*Term)
			if x.op != OConst {
				fr.i.unsupported("math.%s on a symbolic argument", name)
			}
			return fr.i.b.F64(f(x.ConstF64()))
		}
	}
	intrinsics["math.Pow"] = func(fr *frame, args []value) value {
		x, y := args[0].(*Term), args[1].(*Term)
		if x.op != OConst || y.op != OConst {
			fr.i.unsupported("math.Pow on a symbolic argument")
		}
		return fr.i.b.F64(math.Pow(x.ConstF64(), y.ConstF64()))
	}
	intrinsics["math.Nextafter"] = func(fr *frame, args []value) value {
		x, y := args[0].(*Term), args[1].(*Term)
		if x.op != OConst || y.op != OConst {
			fr.i.unsupported("math.Nextafter on a symbolic argument")
		}
		return fr.i.b.F64(math.Nextafter(x.ConstF64(), y.ConstF64()))
	}
	intrinsics["math.Lgamma"] = func(fr *frame, args []value) value {
		x := args[0].(*Term)
		if x.op != OConst {
			fr.i.unsupported("math.Lgamma on a symbolic argument")
		}
		l, s := math.Lgamma(x.ConstF64())
		return tuple{fr.i.b.F64(l), fr.i.b.BV(SBV64, uint64(int64(s)))}
	}
	intrinsics["math.Frexp"] = func(fr *frame, args []value) value {
		x := args[0].(*Term)
		if x.op != OConst {
			fr.i.unsupported("math.Frexp on a symbolic argument")
		}
		f, e := math.Frexp(x.ConstF64())
		return tuple{fr.i.b.F64(f), fr.i.b.BV(SBV64, uint64(int64(e)))}
	}
	intrinsics["math.Ldexp"] = func(fr *frame, args []value) value {
		x, e := args[0].(*Term), args[1].(*Term)
		if x.op != OConst || e.op != OConst {
			fr.i.unsupported("math.Ldexp on a symbolic argument")
		}
		return fr.i.b.F64(math.Ldexp(x.ConstF64(), int(e.ConstS64())))
	}
}

// floatBits returns the IEEE bit pattern of x. For computed floats an
// auxiliary bit-vector variable constrained by to_fp(aux) = x is introduced
// (all NaNs are one value in SMT-LIB: NaN payloads are not modelled).
func (i *interpreter) floatBits(x *Term) *Term {
	if t, ok := i.b.FToBits(x); ok {
		return t
	}
	s := SBV64
	if x.sort == SF32 {
		s = SBV32
	}
	i.ex.auxN++
	aux := i.b.Var(fmt.Sprintf("aux_fb%d", i.ex.auxN), s)
	i.assume(i.b.mk(OEq, SBool, i.b.FFromBits(aux), x, nil, 0, "feq"))
	return aux
}

func extFloatBits(fr *frame, args []value) value { return fr.i.floatBits(args[0].(*Term)) }

func extIsInf(fr *frame, args []value) value {
	b := fr.i.b
	x := args[0].(*Term)
	sign := args[1].(*Term)
	inf := b.FUn(OFIsInf, x)
	pos := b.FCmp(OFLt, b.fconst(x.sort, 0), x)
	neg := b.FCmp(OFLt, x, b.fconst(x.sort, 0))
	sgt := b.Cmp(OSLt, b.BV(SBV64, 0), sign)
	slt := b.Cmp(OSLt, sign, b.BV(SBV64, 0))
	// sign > 0: +Inf; sign < 0: -Inf; sign == 0: either
	return b.And(inf, b.Ite(sgt, pos, b.Ite(slt, neg, b.True)))
}

func (i *interpreter) signbit(x *Term) *Term {
	b := i.b
	if x.op == OConst {
		return b.Bool(math.Signbit(x.ConstF64()))
	}
	if bits, ok := b.FToBits(x); ok {
		return b.Cmp(OSLt, bits, b.BV(bits.sort, 0))
	}
	// negative, or -0: 1/x < 0
	zero := b.fconst(x.sort, 0)
	isNegZero := b.And(b.FCmp(OFEq, x, zero), b.FCmp(OFLt, b.FBin(OFDiv, b.fconst(x.sort, 1), x), zero))
	// NaN sign is not modelled: treated as positive.
	return b.Or(b.FCmp(OFLt, x, zero), isNegZero)
}

func extSignbit(fr *frame, args []value) value { return fr.i.signbit(args[0].(*Term)) }

func extCopysign(fr *frame, args []value) value {
	b := fr.i.b
	x, y := args[0].(*Term), args[1].(*Term)
	ax := b.FUn(OFAbs, x)
	return b.Ite(fr.i.signbit(y), b.FUn(OFNeg, ax), ax)
}

func extModf(fr *frame, args []value) value {
	b := fr.i.b
	x := args[0].(*Term)
	ip := b.FRound(x, 3)
	inf := b.FUn(OFIsInf, x)
	frac := b.Ite(inf, b.fconst(x.sort, math.NaN()), b.FBin(OFSub, x, ip))
	if x.op == OConst {
		ii, ff := math.Modf(x.ConstF64())
		return tuple{b.F64(ii), b.F64(ff)}
	}
	// Go's Modf: frac carries the sign of x (e.g. Modf(-0) = -0, -0). Model
	// the common finite case; |x|<1 keeps sign via x - trunc(x) (gives +0 for
	// integers, while Go gives signed zero: treated as equal by fp.eq).
	return tuple{ip, frac}
}

func extMathMinMax(fr *frame, args []value, isMin bool) value {
	return fr.i.minmax(isMin, types.Typ[types.Float64], args[0], args[1])
}

func extBitsLen(fr *frame, x *Term) value {
	b := fr.i.b
	n := x.sort.Bits()
	if x.op == OConst {
		l := 0
		for v := x.val; v != 0; v >>= 1 {
			l++
		}
		return b.BV(SBV64, uint64(l))
	}
	res := b.BV(SBV64, 0)
	for k := 1; k <= n; k++ {
		// len >= k  iff  x >= 2^(k-1)
		c := b.Not(b.Cmp(OULt, x, b.BV(x.sort, uint64(1)<<uint(k-1))))
		res = b.Ite(c, b.BV(SBV64, uint64(k)), res)
	}
	return res
}

func extLeadingZeros(fr *frame, x *Term) value {
	b := fr.i.b
	l := extBitsLen(fr, x).(*Term)
	return b.Bin(OSub, b.BV(SBV64, uint64(x.sort.Bits())), l)
}

func extTrailingZeros(fr *frame, x *Term) value {
	b := fr.i.b
	n := x.sort.Bits()
	res := b.BV(SBV64, uint64(n))
	for k := n - 1; k >= 0; k-- {
		bit := b.Bin(OBAnd, x, b.BV(x.sort, uint64(1)<<uint(k)))
		res = b.Ite(b.Not(b.Eq(bit, b.BV(x.sort, 0))), b.BV(SBV64, uint64(k)), res)
	}
	return res
}

// ---------------------------------------------------------------- unicode

// extDecodeRune forks on "first byte is ASCII" so that the common case yields
// the plain term zext(p[0]); everything else runs the real implementation.
func extDecodeRune(fr *frame, args []value) value {
	i := fr.i
	var p0 *Term
	n := 0
	switch s := args[0].(type) {
	case string, symstr:
		if n = strLen(s); n > 0 {
			p0 = i.strAt(s, 0)
		}
	case []value:
		if n = len(s); n > 0 {
			p0 = s[0].(*Term)
		}
	}
	if n > 0 && i.decide(i.b.Cmp(OULt, p0, i.b.BV(SBV8, 0x80))) {
		return tuple{i.b.ZExt(p0, SBV32), i.b.BV(SBV64, 1)}
	}
	i.bypassIntrinsic = true
	return i.callSSA(fr.caller, 0, fr.fn, args, nil)
}

// possibleOnes returns a mask of the bits of t that can be 1.
func possibleOnes(t *Term, depth int) uint64 {
	m := maskOf(t.sort)
	if depth > 12 {
		return m
	}
	switch t.op {
	case OConst:
		return t.val
	case OZExt:
		return possibleOnes(t.a, depth+1)
	case OBAnd:
		return possibleOnes(t.a, depth+1) & possibleOnes(t.b, depth+1)
	case OBOr, OBXor:
		return possibleOnes(t.a, depth+1) | possibleOnes(t.b, depth+1)
	case OIte:
		return possibleOnes(t.b, depth+1) | possibleOnes(t.c, depth+1)
	case OShl:
		if t.b.op == OConst && t.b.val < 64 {
			return (possibleOnes(t.a, depth+1) << t.b.val) & m
		}
	case OLShr:
		if t.b.op == OConst && t.b.val < 64 {
			return possibleOnes(t.a, depth+1) >> t.b.val
		}
	case OTrunc:
		return possibleOnes(t.a, depth+1) & m
	}
	return m
}

type runeRange struct{ lo, hi int32 }

var unicodeRanges = map[string][]runeRange{}

func strconvIsPrint(r rune) bool {
	// strconv.IsPrint is unicode.IsPrint by specification.
	return unicode.IsPrint(r)
}

func rangesOf(name string, f func(rune) bool) []runeRange {
	unicodeMu.Lock()
	defer unicodeMu.Unlock()
	if r, ok := unicodeRanges[name]; ok {
		return r
	}
	var rs []runeRange
	in := false
	var lo int32
	for r := int32(0); r <= unicode.MaxRune+1; r++ {
		v := r <= unicode.MaxRune && f(r)
		if v && !in {
			in, lo = true, r
		} else if !v && in {
			in = false
			rs = append(rs, runeRange{lo, r - 1})
		}
	}
	unicodeRanges[name] = rs
	return rs
}

func unicodePred(name string, f func(rune) bool) intrinsicFn {
	return func(fr *frame, args []value) value {
		b := fr.i.b
		r := args[0].(*Term)
		if r.op == OConst {
			return b.Bool(f(rune(int32(r.val))))
		}
		rs := rangesOf(name, f)
		// If the rune is a zero-extended byte only the Latin-1 part matters.
		max := int32(unicode.MaxRune)
		if po := possibleOnes(r, 0); po < uint64(unicode.MaxRune) {
			max = int32(po) // no bit above the highest possible one can be set
		}
		res := b.False
		for _, rr := range rs {
			if rr.lo > max {
				break
			}
			var c *Term
			if rr.lo == rr.hi {
				c = b.Eq(r, b.BV(SBV32, uint64(uint32(rr.lo))))
			} else {
				c = b.And(b.Cmp(OSLe, b.BV(SBV32, uint64(uint32(rr.lo))), r), b.Cmp(OSLe, r, b.BV(SBV32, uint64(uint32(rr.hi)))))
			}
			res = b.Or(res, c)
		}
		return res
	}
}

// ---------------------------------------------------------------- sync

// sync.Pool, sequential model: Get hands back the most recently Put item if there
// is one (a legal behaviour of the real pool, and the usual one on one goroutine
// between collections), otherwise New(). Reuse is what makes stale pooled state
// visible to a history harness.
func extPoolPut(fr *frame, args []value) value {
	i := fr.i
	p := args[0].(*value)
	if x, ok := args[1].(iface); ok && x.t == nil {
		return nil
	}
	old, _ := i.sideState[p].([]value)
	stack := append(append([]value(nil), old...), args[1])
	i.sideState[p] = stack
	i.logUndo(func() {
		if old == nil {
			delete(i.sideState, p)
		} else {
			i.sideState[p] = old
		}
	})
	return nil
}

func extPoolGet(fr *frame, args []value) value {
	i := fr.i
	p := args[0].(*value)
	if old, _ := i.sideState[p].([]value); len(old) > 0 {
		i.ex.run.noteStub("sync.Pool: Get returns the most recently Put item (sequential model)")
		top := old[len(old)-1]
		rest := append([]value(nil), old[:len(old)-1]...)
		i.sideState[p] = rest
		i.logUndo(func() { i.sideState[p] = old })
		return top
	}
	st := (*p).(structure)
	// field "New" is the last field
	newf := st[len(st)-1]
	switch f := newf.(type) {
	case *ssa.Function:
		if f == nil {
			return iface{}
		}
	case *closure:
		if f == nil {
			return iface{}
		}
	}
	return fr.i.call(fr, 0, newf, nil)
}

func extOnceDo(fr *frame, args []value) value {
	i := fr.i
	p := args[0].(*value)
	if _, done := i.sideState[p]; done {
		return nil
	}
	i.sideState[p] = true
	i.logUndo(func() { delete(i.sideState, p) })
	i.call(fr, 0, args[1], nil)
	return nil
}

func (i *interpreter) syncMap(p *value) *smap {
	if m, ok := i.sideState[p]; ok {
		return m.(*smap)
	}
	m := i.makeMap(nil)
	i.sideState[p] = m
	i.logUndo(func() { delete(i.sideState, p) })
	return m
}

func extSyncMapLoad(fr *frame, args []value) value {
	i := fr.i
	m := i.syncMap(args[0].(*value))
	if e := i.mapFind(m, args[1]); e != nil {
		return tuple{e.val, i.b.True}
	}
	return tuple{iface{}, i.b.False}
}

func extSyncMapStore(fr *frame, args []value) value {
	i := fr.i
	i.mapInsert(i.syncMap(args[0].(*value)), args[1], args[2])
	return nil
}

func extSyncMapLoadOrStore(fr *frame, args []value) value {
	i := fr.i
	m := i.syncMap(args[0].(*value))
	if e := i.mapFind(m, args[1]); e != nil {
		return tuple{e.val, i.b.True}
	}
	i.mapInsert(m, args[1], args[2])
	return tuple{args[2], i.b.False}
}

func extSyncMapDelete(fr *frame, args []value) value {
	i := fr.i
	i.mapDelete(i.syncMap(args[0].(*value)), args[1])
	return nil
}

func extSyncMapRange(fr *frame, args []value) value {
	i := fr.i
	m := i.syncMap(args[0].(*value))
	for _, e := range append([]*mapEntry(nil), m.entries...) {
		if e.dead {
			continue
		}
		r := i.call(fr, 0, args[1], []value{e.key, e.val}).(*Term)
		if !i.decide(r) {
			break
		}
	}
	return nil
}

func extAtomicLoad(fr *frame, args []value) value {
	return fr.i.load(nil, args[0].(*value))
}

func extAtomicStore(fr *frame, args []value) value {
	fr.i.store(args[0].(*value), args[1])
	return nil
}

func extAtomicAdd(fr *frame, args []value) value {
	i := fr.i
	p := args[0].(*value)
	if p == nil {
		nilDeref()
	}
	n := i.b.Bin(OAdd, (*p).(*Term), args[1].(*Term))
	i.set(p, n)
	return n
}

func extAtomicCAS(fr *frame, args []value) value {
	i := fr.i
	p := args[0].(*value)
	if p == nil {
		nilDeref()
	}
	if i.decide(i.b.Eq((*p).(*Term), args[1].(*Term))) {
		i.set(p, args[2])
		return i.b.True
	}
	return i.b.False
}

// ---------------------------------------------------------------- maphash

type mhState struct{ h *Term }

func (i *interpreter) mh(p *value) *mhState {
	if s, ok := i.sideState[p]; ok {
		return s.(*mhState)
	}
	s := &mhState{h: i.b.BV(SBV64, 0x9e3779b97f4a7c15)}
	i.sideState[p] = s
	i.logUndo(func() { delete(i.sideState, p) })
	return s
}

func extMaphashWrite(fr *frame, args []value) value {
	i := fr.i
	s := i.mh(args[0].(*value))
	old := s.h
	i.logUndo(func() { s.h = old })
	var seq []*Term
	if t, ok := args[1].(*Term); ok {
		seq = []*Term{t}
	} else {
		seq = i.seqOf(args[1])
	}
	for _, c := range seq {
		if i.ex.hashUF && i.ex.job.Concrete == nil {
			s.h = i.b.UF("mh_step", SBV64, s.h, c)
		} else {
			// rotate-xor step: a concrete mixing function without
			// multiplication, so that (in)equality of hashes is cheap to
			// decide; collisions exist for longer inputs and are explored
			rot := i.b.Bin(OBOr, i.b.Bin(OShl, s.h, i.b.BV(SBV64, 9)), i.b.Bin(OLShr, s.h, i.b.BV(SBV64, 55)))
			s.h = i.b.Bin(OBXor, rot, i.b.ZExt(c, SBV64))
		}
	}
	if i.ex.hashUF {
		i.ex.run.noteStub("hash/maphash: Sum64 is an uninterpreted function of the bytes written (collisions explored)")
	} else {
		i.ex.run.noteStub("hash/maphash: Sum64 is modelled by a rotate-xor mix of the bytes written")
	}
	if _, ok := args[1].(*Term); ok {
		return iface{}
	}
	return tuple{intRes(fr, len(seq)), iface{}}
}

func extMaphashSum(fr *frame, args []value) value {
	return fr.i.mh(args[0].(*value)).h
}

func extMaphashReset(fr *frame, args []value) value {
	i := fr.i
	s := i.mh(args[0].(*value))
	old := s.h
	i.logUndo(func() { s.h = old })
	s.h = i.b.BV(SBV64, 0x9e3779b97f4a7c15)
	return nil
}

// ---------------------------------------------------------------- strings.Builder

func extBuilderString(fr *frame, args []value) value {
	p := args[0].(*value)
	if p == nil {
		nilDeref()
	}
	st := (*p).(structure)
	// type Builder struct { addr *Builder; buf []byte }
	return fr.i.bytesToStr(st[1].([]value))
}

// ---------------------------------------------------------------- sort.Slice

func extSortSlice(fr *frame, args []value, algo string) value {
	i := fr.i
	x := args[0].(iface)
	sl, ok := x.v.([]value)
	if !ok {
		i.unsupported("sort.Slice of %T", x.v)
	}
	swap := &hostFunc{name: "swapper", f: func(fr *frame, a []value) value {
		p, q := int(a[0].(*Term).ConstS64()), int(a[1].(*Term).ConstS64())
		vp, vq := sl[p], sl[q]
		i.set(&sl[p], vq)
		i.set(&sl[q], vp)
		return nil
	}}
	ls := structure{args[1], swap}
	pkg := i.prog.ImportedPackage("sort")
	f := pkg.Func(algo)
	n := i.b.BV(SBV64, uint64(len(sl)))
	if algo == "pdqsort_func" {
		limit := 0
		for v := len(sl); v != 0; v >>= 1 {
			limit++
		}
		i.callSSA(fr, 0, f, []value{ls, i.b.BV(SBV64, 0), n, i.b.BV(SBV64, uint64(limit))}, nil)
	} else {
		i.callSSA(fr, 0, f, []value{ls, n}, nil)
	}
	return nil
}

// ---------------------------------------------------------------- errors

func extErrorsIs(fr *frame, args []value) value {
	i := fr.i
	err, target := args[0].(iface), args[1].(iface)
	for depth := 0; depth < 32; depth++ {
		if err.t == nil {
			return i.b.Bool(target.t == nil)
		}
		if target.t != nil && types.Comparable(target.t) && types.Identical(err.t, target.t) {
			if i.decide(i.eqv(err.t, err.v, target.v)) {
				return i.b.True
			}
		}
		if m := i.findMethod(err.t, "Is"); m != nil {
			if i.decide(i.callSSA(fr, 0, m, []value{err.v, target}, nil).(*Term)) {
				return i.b.True
			}
		}
		m := i.findMethod(err.t, "Unwrap")
		if m == nil {
			return i.b.False
		}
		res := i.callSSA(fr, 0, m, []value{err.v}, nil)
		nx, ok := res.(iface)
		if !ok {
			return i.b.False // Unwrap() []error not modelled
		}
		err = nx
	}
	return i.b.False
}

func (i *interpreter) findMethod(t types.Type, name string) *ssa.Function {
	ms := i.prog.MethodSets.MethodSet(t)
	for k := 0; k < ms.Len(); k++ {
		sel := ms.At(k)
		if sel.Obj().Name() == name {
			return i.prog.MethodValue(sel)
		}
	}
	return nil
}

// ---------------------------------------------------------------- regexp

func (i *interpreter) concreteArg(v value, what string) string {
	s, ok := concreteStr(v)
	if !ok {
		if bs, isB := v.([]value); isB {
			if cs, ok2 := concreteStr(i.bytesToStr(bs)); ok2 {
				return cs
			}
		}
		i.unsupported("%s on a symbolic string", what)
	}
	return s
}

func extRegexpCompile(fr *frame, args []value) value {
	i := fr.i
	pat := i.concreteArg(args[0], "regexp.Compile")
	re, err := regexp.Compile(pat)
	must := fr.fn.Name() == "MustCompile"
	if err != nil {
		if must {
			panic(targetPanic{v: "regexp: Compile(" + pat + "): " + err.Error()})
		}
		return tuple{(*value)(nil), i.mkError(err.Error())}
	}
	var cell value = native{re}
	if must {
		return &cell
	}
	return tuple{&cell, iface{}}
}

func (i *interpreter) nativeRegexp(v value) *regexp.Regexp {
	p := v.(*value)
	if p == nil {
		nilDeref()
	}
	return (*p).(native).v.(*regexp.Regexp)
}

func extRegexpMatch(fr *frame, args []value) value {
	i := fr.i
	re := i.nativeRegexp(args[0])
	s := i.concreteArg(args[1], "regexp match")
	return i.b.Bool(re.MatchString(s))
}

func extRegexpString(fr *frame, args []value) value {
	return fr.i.nativeRegexp(args[0]).String()
}

func extRegexpFindSub(fr *frame, args []value) value {
	i := fr.i
	re := i.nativeRegexp(args[0])
	s := i.concreteArg(args[1], "regexp find")
	m := re.FindStringSubmatch(s)
	if m == nil {
		return []value(nil)
	}
	out := make([]value, len(m))
	for k, x := range m {
		out[k] = x
	}
	return out
}

func extRegexpFindSubIdx(fr *frame, args []value) value {
	i := fr.i
	re := i.nativeRegexp(args[0])
	s := i.concreteArg(args[1], "regexp find")
	m := re.FindStringSubmatchIndex(s)
	if m == nil {
		return []value(nil)
	}
	out := make([]value, len(m))
	for k, x := range m {
		out[k] = i.b.BV(SBV64, uint64(int64(x)))
	}
	return out
}

// mkError builds an error value equivalent to errors.New(msg).
func (i *interpreter) mkError(msg value) value {
	pkg := i.prog.ImportedPackage("errors")
	if pkg == nil {
		i.unsupported("errors package not loaded")
	}
	return i.callSSA(i.lastFrame, 0, pkg.Func("New"), []value{msg}, nil)
}

// ---------------------------------------------------------------- os stub

type simFile struct {
	content []value
	pos     int
	path    value // set for files made by os.Create
}

func extOsCreate(fr *frame, args []value) value {
	i := fr.i
	ex := i.ex
	ex.run.noteStub("os.Create/MkdirAll/Remove/(*os.File).Write: an in-memory file registry shared with vndFile (directories and permissions are not modelled)")
	if ex.files == nil {
		ex.files = i.makeMap(types.Typ[types.String])
	}
	i.mapInsert(ex.files, args[0], []value{})
	var cell value = native{&simFile{path: args[0]}}
	return tuple{&cell, iface{}}
}

func extOsRemove(fr *frame, args []value) value {
	i := fr.i
	ex := i.ex
	if ex.files != nil {
		if e := i.mapFind(ex.files, args[0]); e != nil {
			i.mapDelete(ex.files, args[0])
			return iface{}
		}
	}
	return i.mkError(i.strConcat("remove ", i.strConcat(args[0], ": no such file or directory")))
}

func extFileName(fr *frame, args []value) value {
	p := args[0].(*value)
	if p != nil {
		if n, ok := (*p).(native); ok {
			if f, ok := n.v.(*simFile); ok && f.path != nil {
				return f.path
			}
		}
	}
	fr.i.unsupported("(*os.File).Name of a file that was not made by os.Create")
	return nil
}

func extFileWrite(fr *frame, args []value) value {
	i := fr.i
	buf := args[1].([]value)
	if p := args[0].(*value); p != nil {
		if n, ok := (*p).(native); ok {
			if f, ok := n.v.(*simFile); ok && f.path != nil && i.ex.files != nil {
				if e := i.mapFind(i.ex.files, f.path); e != nil {
					old := e.val.([]value)
					i.mapInsert(i.ex.files, f.path, append(append([]value(nil), old...), buf...))
				}
			}
		}
	}
	return tuple{i.b.BV(SBV64, uint64(len(buf))), iface{}}
}

func extOsOpen(fr *frame, args []value) value {
	i := fr.i
	ex := i.ex
	ex.run.noteStub("os.Open/(*os.File).Read: files are the byte contents registered by the harness (vndFile); unknown path = not-exist error")
	if ex.files != nil {
		if e := i.mapFind(ex.files, args[0]); e != nil {
			var cell value = native{&simFile{content: e.val.([]value)}}
			return tuple{&cell, iface{}}
		}
	}
	return tuple{(*value)(nil), i.mkError(i.strConcat("open ", i.strConcat(args[0], ": no such file or directory")))}
}

func extFileRead(fr *frame, args []value) value {
	i := fr.i
	p := args[0].(*value)
	if p == nil {
		nilDeref()
	}
	f := (*p).(native).v.(*simFile)
	buf := args[1].([]value)
	if f.pos >= len(f.content) {
		eof := i.globals[i.prog.ImportedPackage("io").Var("EOF")]
		return tuple{i.b.BV(SBV64, 0), *eof}
	}
	n := 0
	for n < len(buf) && f.pos < len(f.content) {
		i.set(&buf[n], f.content[f.pos])
		n++
		f.pos++
	}
	return tuple{i.b.BV(SBV64, uint64(n)), iface{}}
}

// ---------------------------------------------------------------- time

func hostTime(fr *frame, v value) time.Time {
	if n, ok := v.(native); ok {
		if t, ok := n.v.(time.Time); ok {
			return t
		}
	}
	if _, ok := v.(structure); ok {
		return time.Time{} // the zero value built by the interpreted program
	}
	fr.i.unsupported("time.Time value of unexpected shape %T", v)
	return time.Time{}
}

func extTimeParse(fr *frame, args []value) value {
	i := fr.i
	layout := i.concreteArg(args[0], "time.Parse layout")
	val := i.concreteArg(args[1], "time.Parse value")
	i.ex.run.noteStub("time.Parse/Format/UTC run natively on concrete strings (locations other than UTC are not modelled)")
	t, err := time.Parse(layout, val)
	if len(args) == 3 {
		t, err = time.ParseInLocation(layout, val, time.UTC)
	}
	if err != nil {
		return tuple{native{time.Time{}}, i.mkError(err.Error())}
	}
	return tuple{native{t}, iface{}}
}

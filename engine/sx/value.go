package sx

// value.go: run-time values of the symbolic interpreter.
//
// Dynamic types of value:
//   *Term                 bool, all integer kinds, float32/64 (constant or symbolic)
//   string, symstr        strings: fully concrete, or concrete length with symbolic bytes
//   []value               slices (native Go slices: aliasing is exact)
//   *value                pointers
//   structure, array      aggregates (by value; copied on load/store)
//   iface                 interfaces
//   *smap                 maps (insertion ordered association list)
//   *schan                channels (queue)
//   *ssa.Function, *closure, *ssa.Builtin   functions
//   tuple                 multi-value results
//   uptr                  unsafe.Pointer wrapping the original pointer value
//   native                opaque host object (regexp etc.)
//   complex128            (unsupported in arithmetic)

import (
	"fmt"
	"go/types"
	"strings"

	"golang.org/x/tools/go/ssa"
)

type value interface{}

type tuple []value
type array []value
type structure []value

type iface struct {
	t types.Type
	v value
}

type closure struct {
	Fn  *ssa.Function
	Env []value
}

type symstr []*Term

type uptr struct{ p value }

type native struct{ v interface{} }

type bad struct{}

type iter interface {
	next() tuple
}

// ---------------------------------------------------------------- type info

type basicKind struct {
	sort   Sort
	signed bool
}

func scalarKind(t types.Type) (basicKind, bool) {
	b, ok := t.Underlying().(*types.Basic)
	if !ok {
		return basicKind{}, false
	}
	switch b.Kind() {
	case types.Bool, types.UntypedBool:
		return basicKind{SBool, false}, true
	case types.Int, types.Int64, types.UntypedInt:
		return basicKind{SBV64, true}, true
	case types.Int8:
		return basicKind{SBV8, true}, true
	case types.Int16:
		return basicKind{SBV16, true}, true
	case types.Int32, types.UntypedRune:
		return basicKind{SBV32, true}, true
	case types.Uint, types.Uint64, types.Uintptr:
		return basicKind{SBV64, false}, true
	case types.Uint8:
		return basicKind{SBV8, false}, true
	case types.Uint16:
		return basicKind{SBV16, false}, true
	case types.Uint32:
		return basicKind{SBV32, false}, true
	case types.Float32:
		return basicKind{SF32, false}, true
	case types.Float64, types.UntypedFloat:
		return basicKind{SF64, false}, true
	}
	return basicKind{}, false
}

func isString(t types.Type) bool {
	b, ok := t.Underlying().(*types.Basic)
	return ok && b.Info()&types.IsString != 0
}

// ---------------------------------------------------------------- zero

func (i *interpreter) zero(t types.Type) value {
	switch t := t.(type) {
	case *types.Basic:
		if t.Kind() == types.UntypedNil {
			panic("untyped nil has no zero value")
		}
		if k, ok := scalarKind(t); ok {
			return i.zeroScalar(k.sort)
		}
		switch t.Kind() {
		case types.String, types.UntypedString:
			return ""
		case types.UnsafePointer:
			return uptr{}
		case types.Complex64, types.Complex128, types.UntypedComplex:
			return complex128(0)
		}
		panic(fmt.Sprint("zero for unexpected type:", t))
	case *types.Pointer:
		return (*value)(nil)
	case *types.Array:
		a := make(array, t.Len())
		for j := range a {
			a[j] = i.zero(t.Elem())
		}
		return a
	case *types.Named:
		return i.zero(t.Underlying())
	case *types.Alias:
		return i.zero(types.Unalias(t))
	case *types.Interface:
		return iface{}
	case *types.Slice:
		return []value(nil)
	case *types.Struct:
		s := make(structure, t.NumFields())
		for j := range s {
			s[j] = i.zero(t.Field(j).Type())
		}
		return s
	case *types.Tuple:
		if t.Len() == 1 {
			return i.zero(t.At(0).Type())
		}
		s := make(tuple, t.Len())
		for j := range s {
			s[j] = i.zero(t.At(j).Type())
		}
		return s
	case *types.Chan:
		return (*schan)(nil)
	case *types.Map:
		return (*smap)(nil)
	case *types.Signature:
		return (*ssa.Function)(nil)
	case *types.TypeParam:
		panic("zero of type parameter (function not instantiated)")
	}
	panic(fmt.Sprint("zero: unexpected ", t))
}

func (i *interpreter) zeroScalar(s Sort) *Term {
	if z := i.zeros[s]; z != nil {
		return z
	}
	var z *Term
	switch s {
	case SBool:
		z = i.b.False
	case SF32:
		z = i.b.F32(0)
	case SF64:
		z = i.b.F64(0)
	default:
		z = i.b.BV(s, 0)
	}
	i.zeros[s] = z
	return z
}

// ---------------------------------------------------------------- memory

type trailEnt struct {
	addr *value
	old  value
	fn   func()
}

// set writes *addr = v, logging the old content so that the write can be
// undone when the path ends.
func (i *interpreter) set(addr *value, v value) {
	if i.trailOn {
		i.trail = append(i.trail, trailEnt{addr: addr, old: *addr})
	}
	*addr = v
}

func (i *interpreter) logUndo(fn func()) {
	if i.trailOn {
		i.trail = append(i.trail, trailEnt{fn: fn})
	}
}

func (i *interpreter) undoTrail() {
	for k := len(i.trail) - 1; k >= 0; k-- {
		e := &i.trail[k]
		if e.fn != nil {
			e.fn()
		} else {
			*e.addr = e.old
		}
		*e = trailEnt{}
	}
	i.trail = i.trail[:0]
}

func nilDeref() {
	panic(targetPanic{v: runtimeError("invalid memory address or nil pointer dereference")})
}

// load returns a copy of the value of type T in *addr.
func (i *interpreter) load(T types.Type, addr *value) value {
	if addr == nil {
		nilDeref()
	}
	return copyVal(*addr)
}

// copyVal copies aggregates (structs and arrays have value semantics).
func copyVal(v value) value {
	switch v := v.(type) {
	case structure:
		a := make(structure, len(v))
		for j := range v {
			a[j] = copyVal(v[j])
		}
		return a
	case array:
		a := make(array, len(v))
		for j := range v {
			a[j] = copyVal(v[j])
		}
		return a
	}
	return v
}

// store stores v into *addr, element-wise for aggregates so that interior
// pointers (&s.f, &a[i]) keep aliasing the stored object.
func (i *interpreter) store(addr *value, v value) {
	if addr == nil {
		nilDeref()
	}
	switch rhs := v.(type) {
	case structure:
		lhs, ok := (*addr).(structure)
		if !ok || len(lhs) != len(rhs) {
			i.set(addr, copyVal(v))
			return
		}
		for j := range lhs {
			i.store(&lhs[j], rhs[j])
		}
	case array:
		lhs, ok := (*addr).(array)
		if !ok || len(lhs) != len(rhs) {
			i.set(addr, copyVal(v))
			return
		}
		for j := range lhs {
			i.store(&lhs[j], rhs[j])
		}
	default:
		i.set(addr, v)
	}
}

// ---------------------------------------------------------------- strings

func strLen(v value) int {
	switch s := v.(type) {
	case string:
		return len(s)
	case symstr:
		return len(s)
	}
	panic(fmt.Sprintf("strLen: %T", v))
}

func (i *interpreter) strAt(v value, k int) *Term {
	switch s := v.(type) {
	case string:
		return i.b.BV(SBV8, uint64(s[k]))
	case symstr:
		return s[k]
	}
	panic(fmt.Sprintf("strAt: %T", v))
}

// normStr collapses an all-constant symstr to a Go string.
func normStr(s symstr) value {
	for _, c := range s {
		if c.op != OConst {
			return s
		}
	}
	var sb strings.Builder
	sb.Grow(len(s))
	for _, c := range s {
		sb.WriteByte(byte(c.val))
	}
	return sb.String()
}

func (i *interpreter) toSym(v value) symstr {
	switch s := v.(type) {
	case symstr:
		return s
	case string:
		r := make(symstr, len(s))
		for k := 0; k < len(s); k++ {
			r[k] = i.byteConst(s[k])
		}
		return r
	}
	panic(fmt.Sprintf("toSym: %T", v))
}

func (i *interpreter) byteConst(c byte) *Term {
	if t := i.bytes[c]; t != nil {
		return t
	}
	t := i.b.BV(SBV8, uint64(c))
	i.bytes[c] = t
	return t
}

func (i *interpreter) strSlice(v value, lo, hi int) value {
	switch s := v.(type) {
	case string:
		return s[lo:hi]
	case symstr:
		return normStr(s[lo:hi])
	}
	panic(fmt.Sprintf("strSlice: %T", v))
}

func (i *interpreter) strConcat(x, y value) value {
	if xs, ok := x.(string); ok {
		if ys, ok := y.(string); ok {
			return xs + ys
		}
	}
	a, b := i.toSym(x), i.toSym(y)
	r := make(symstr, 0, len(a)+len(b))
	r = append(r, a...)
	r = append(r, b...)
	return r
}

// strEq returns the (possibly symbolic) truth of x == y.
func (i *interpreter) strEq(x, y value) *Term {
	if xs, ok := x.(string); ok {
		if ys, ok := y.(string); ok {
			return i.b.Bool(xs == ys)
		}
	}
	if strLen(x) != strLen(y) {
		return i.b.False
	}
	r := i.b.True
	n := strLen(x)
	for k := 0; k < n; k++ {
		r = i.b.And(r, i.b.Eq(i.strAt(x, k), i.strAt(y, k)))
		if r == i.b.False {
			return r
		}
	}
	return r
}

// strLess returns the truth of x < y (bytewise).
func (i *interpreter) strLess(x, y value) *Term {
	if xs, ok := x.(string); ok {
		if ys, ok := y.(string); ok {
			return i.b.Bool(xs < ys)
		}
	}
	nx, ny := strLen(x), strLen(y)
	n := nx
	if ny < n {
		n = ny
	}
	// build from the end: less_k = x[k]<y[k] || (x[k]==y[k] && less_{k+1})
	r := i.b.Bool(nx < ny)
	for k := n - 1; k >= 0; k-- {
		a, c := i.strAt(x, k), i.strAt(y, k)
		r = i.b.Or(i.b.Cmp(OULt, a, c), i.b.And(i.b.Eq(a, c), r))
	}
	return r
}

// bytesOf converts a []byte value to a string value.
func (i *interpreter) bytesToStr(b []value) value {
	conc := true
	for _, e := range b {
		if e.(*Term).op != OConst {
			conc = false
			break
		}
	}
	if conc {
		var sb strings.Builder
		sb.Grow(len(b))
		for _, e := range b {
			sb.WriteByte(byte(e.(*Term).val))
		}
		return sb.String()
	}
	r := make(symstr, len(b))
	for k, e := range b {
		r[k] = e.(*Term)
	}
	return r
}

func (i *interpreter) strToBytes(s value) []value {
	n := strLen(s)
	r := make([]value, n)
	switch s := s.(type) {
	case string:
		for k := 0; k < n; k++ {
			r[k] = i.byteConst(s[k])
		}
	case symstr:
		for k := 0; k < n; k++ {
			r[k] = s[k]
		}
	}
	return r
}

// concreteStr returns the Go string if v is a fully concrete string.
func concreteStr(v value) (string, bool) {
	switch s := v.(type) {
	case string:
		return s, true
	case symstr:
		if n, ok := normStr(s).(string); ok {
			return n, true
		}
	}
	return "", false
}

// ---------------------------------------------------------------- equality

type runtimeError string

// eqv returns the truth of x == y for values of static type t.
func (i *interpreter) eqv(t types.Type, x, y value) *Term {
	switch x := x.(type) {
	case *Term:
		yt, ok := y.(*Term)
		if !ok {
			panic(fmt.Sprintf("eqv: %T vs %T", x, y))
		}
		if x.sort.IsFloat() {
			return i.b.FCmp(OFEq, x, yt)
		}
		return i.b.Eq(x, yt)
	case string, symstr:
		return i.strEq(x, y)
	case *value:
		return i.b.Bool(x == y.(*value))
	case *schan:
		return i.b.Bool(x == y.(*schan))
	case uptr:
		return i.b.Bool(x.p == y.(uptr).p)
	case structure:
		ys := y.(structure)
		st, _ := t.Underlying().(*types.Struct)
		r := i.b.True
		for k := range x {
			var ft types.Type
			if st != nil {
				if st.Field(k).Name() == "_" {
					continue
				}
				ft = st.Field(k).Type()
			}
			r = i.b.And(r, i.eqv(ft, x[k], ys[k]))
			if r == i.b.False {
				return r
			}
		}
		return r
	case array:
		ya := y.(array)
		var et types.Type
		if at, ok := t.Underlying().(*types.Array); ok {
			et = at.Elem()
		}
		r := i.b.True
		for k := range x {
			r = i.b.And(r, i.eqv(et, x[k], ya[k]))
			if r == i.b.False {
				return r
			}
		}
		return r
	case iface:
		yi := y.(iface)
		if x.t == nil || yi.t == nil {
			return i.b.Bool(x.t == nil && yi.t == nil)
		}
		if !types.Identical(x.t, yi.t) {
			return i.b.False
		}
		switch x.t.Underlying().(type) {
		case *types.Map, *types.Slice, *types.Signature:
			panic(targetPanic{v: runtimeError("comparing uncomparable type " + x.t.String())})
		}
		return i.eqv(x.t, x.v, yi.v)
	case native:
		return i.b.Bool(x.v == y.(native).v)
	case *ssa.Function, *closure, *smap, []value:
		panic(fmt.Sprintf("eqv: uncomparable %T", x))
	}
	panic(fmt.Sprintf("eqv: unexpected %T (type %v)", x, t))
}

// eqnil handles comparisons where one operand is a literal nil of a
// reference type.
func (i *interpreter) eqnil(t types.Type, x, y value) *Term {
	switch t.Underlying().(type) {
	case *types.Map, *types.Signature, *types.Slice:
		return i.b.Bool(isNilRef(x) == isNilRef(y))
	}
	return i.eqv(t, x, y)
}

func isNilRef(v value) bool {
	switch v := v.(type) {
	case *smap:
		return v == nil
	case *ssa.Function:
		return v == nil
	case *closure:
		return v == nil
	case []value:
		return v == nil
	case *ssa.Builtin:
		return v == nil
	}
	panic(fmt.Sprintf("isNilRef: %T", v))
}

// ---------------------------------------------------------------- maps

type mapEntry struct {
	key, val value
	dead     bool
}

type smap struct {
	keyType types.Type
	entries []*mapEntry
	live    int
	strIdx  map[string]*mapEntry // concrete string keys
	symKeys int                  // number of live entries whose key is not a concrete string
}

func (i *interpreter) makeMap(kt types.Type) *smap {
	return &smap{keyType: kt, strIdx: map[string]*mapEntry{}}
}

// find returns the entry whose key equals k, forking on undecided
// equalities.
func (i *interpreter) mapFind(m *smap, k value) *mapEntry {
	if m == nil {
		return nil
	}
	if ks, ok := k.(string); ok {
		if e := m.strIdx[ks]; e != nil {
			return e
		}
		if m.symKeys == 0 {
			return nil
		}
		for _, e := range m.entries {
			if e.dead {
				continue
			}
			if _, conc := e.key.(string); conc {
				continue
			}
			if i.decide(i.eqv(m.keyType, e.key, k)) {
				return e
			}
		}
		return nil
	}
	if ik, ok := k.(iface); ok {
		// hashing an uncomparable dynamic type panics in Go
		if ik.t != nil {
			switch ik.t.Underlying().(type) {
			case *types.Map, *types.Slice, *types.Signature:
				panic(targetPanic{v: runtimeError("hash of unhashable type " + ik.t.String())})
			}
		}
	}
	for _, e := range m.entries {
		if e.dead {
			continue
		}
		if i.decide(i.eqv(m.keyType, e.key, k)) {
			return e
		}
	}
	return nil
}

func (i *interpreter) mapInsert(m *smap, k, v value) {
	if m == nil {
		panic(targetPanic{v: runtimeError("assignment to entry in nil map")})
	}
	if e := i.mapFind(m, k); e != nil {
		i.set(&e.val, v)
		return
	}
	if s, ok := k.(symstr); ok {
		k = normStr(s)
	}
	e := &mapEntry{key: copyVal(k), val: v}
	m.entries = append(m.entries, e)
	m.live++
	ks, conc := k.(string)
	if conc {
		m.strIdx[ks] = e
	} else {
		m.symKeys++
	}
	i.logUndo(func() {
		m.entries = m.entries[:len(m.entries)-1]
		m.live--
		if conc {
			delete(m.strIdx, ks)
		} else {
			m.symKeys--
		}
	})
}

func (i *interpreter) mapDelete(m *smap, k value) {
	e := i.mapFind(m, k)
	if e == nil {
		return
	}
	e.dead = true
	m.live--
	ks, conc := e.key.(string)
	if conc {
		delete(m.strIdx, ks)
	} else {
		m.symKeys--
	}
	i.logUndo(func() {
		e.dead = false
		m.live++
		if conc {
			m.strIdx[ks] = e
		} else {
			m.symKeys++
		}
	})
}

type mapIter struct {
	i    *interpreter
	m    *smap
	pos  int
	perm []int // optional nondeterministic order (indices into a snapshot)
	snap []*mapEntry
}

func (it *mapIter) next() tuple {
	if it.m == nil {
		return tuple{it.i.b.False, nil, nil}
	}
	if it.snap != nil {
		for it.pos < len(it.snap) {
			e := it.snap[it.pos]
			it.pos++
			if !e.dead {
				return tuple{it.i.b.True, copyVal(e.key), copyVal(e.val)}
			}
		}
		return tuple{it.i.b.False, nil, nil}
	}
	for it.pos < len(it.m.entries) {
		e := it.m.entries[it.pos]
		it.pos++
		if !e.dead {
			return tuple{it.i.b.True, copyVal(e.key), copyVal(e.val)}
		}
	}
	return tuple{it.i.b.False, nil, nil}
}

// ---------------------------------------------------------------- channels

type schan struct {
	q      []value
	cap    int
	closed bool
}

// ---------------------------------------------------------------- printing (debug)

func toString(v value) string {
	var sb strings.Builder
	writeValue(&sb, v, 3)
	return sb.String()
}

func writeValue(sb *strings.Builder, v value, depth int) {
	if depth < 0 {
		sb.WriteString("…")
		return
	}
	switch v := v.(type) {
	case nil:
		sb.WriteString("<nil>")
	case *Term:
		sb.WriteString(v.String())
	case string:
		fmt.Fprintf(sb, "%q", v)
	case symstr:
		sb.WriteString("sym\"")
		for _, c := range v {
			if c.op == OConst {
				fmt.Fprintf(sb, "%s", string(rune(c.val)))
			} else {
				sb.WriteString("{" + c.String() + "}")
			}
		}
		sb.WriteString("\"")
	case *value:
		if v == nil {
			sb.WriteString("nilptr")
		} else {
			sb.WriteString("&")
			writeValue(sb, *v, depth-1)
		}
	case iface:
		if v.t == nil {
			sb.WriteString("nil-iface")
		} else {
			fmt.Fprintf(sb, "(%s)", v.t)
			writeValue(sb, v.v, depth-1)
		}
	case structure:
		sb.WriteString("{")
		for k, e := range v {
			if k > 0 {
				sb.WriteString(" ")
			}
			writeValue(sb, e, depth-1)
		}
		sb.WriteString("}")
	case array:
		sb.WriteString("[")
		for k, e := range v {
			if k > 0 {
				sb.WriteString(" ")
			}
			if k > 16 {
				sb.WriteString("…")
				break
			}
			writeValue(sb, e, depth-1)
		}
		sb.WriteString("]")
	case []value:
		sb.WriteString("[")
		for k, e := range v {
			if k > 0 {
				sb.WriteString(" ")
			}
			if k > 16 {
				sb.WriteString("…")
				break
			}
			writeValue(sb, e, depth-1)
		}
		sb.WriteString("]")
	case tuple:
		sb.WriteString("(")
		for k, e := range v {
			if k > 0 {
				sb.WriteString(", ")
			}
			writeValue(sb, e, depth-1)
		}
		sb.WriteString(")")
	case runtimeError:
		sb.WriteString("runtime error: " + string(v))
	default:
		fmt.Fprintf(sb, "<%T>", v)
	}
}

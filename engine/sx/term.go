// Package sx is a symbolic interpreter for go/ssa with an SMT back end.
//
// term.go: hash-consed SMT terms over Bool, bit-vectors (8..128) and IEEE
// floats, with constant folding so that concrete computation stays concrete.
package sx

import (
	"fmt"
	"math"
	"math/big"
	"math/bits"
	"strings"
)

type Sort uint8

const (
	SBool Sort = iota
	SBV8
	SBV16
	SBV32
	SBV64
	SBV128
	SF32
	SF64
)

func (s Sort) Bits() int {
	switch s {
	case SBool:
		return 1
	case SBV8:
		return 8
	case SBV16:
		return 16
	case SBV32, SF32:
		return 32
	case SBV64, SF64:
		return 64
	case SBV128:
		return 128
	}
	panic("bad sort")
}

func (s Sort) IsBV() bool    { return s >= SBV8 && s <= SBV128 }
func (s Sort) IsFloat() bool { return s == SF32 || s == SF64 }

func (s Sort) SMT() string {
	switch s {
	case SBool:
		return "Bool"
	case SF32:
		return "(_ FloatingPoint 8 24)"
	case SF64:
		return "(_ FloatingPoint 11 53)"
	}
	return fmt.Sprintf("(_ BitVec %d)", s.Bits())
}

func BVSort(bits int) Sort {
	switch bits {
	case 8:
		return SBV8
	case 16:
		return SBV16
	case 32:
		return SBV32
	case 64:
		return SBV64
	case 128:
		return SBV128
	}
	panic(fmt.Sprintf("no BV sort of %d bits", bits))
}

type Op uint8

const (
	OConst Op = iota
	OVar
	// Bool
	ONot
	OAnd
	OOr
	OIte
	OEq // polymorphic equality (BV, Bool); for floats see OFEq
	// BV
	OAdd
	OSub
	OMul
	OUDiv
	OSDiv
	OURem
	OSRem
	OBAnd
	OBOr
	OBXor
	OBNot
	ONeg
	OShl
	OLShr
	OAShr
	OULt
	OULe
	OSLt
	OSLe
	OZExt   // to t.sort
	OSExt   // to t.sort
	OTrunc  // extract low bits to t.sort
	OConcat // (a ++ b) to t.sort
	// FP
	OFAdd
	OFSub
	OFMul
	OFDiv
	OFNeg
	OFAbs
	OFSqrt
	OFLt
	OFLe
	OFEq
	OFIsNaN
	OFIsInf
	OFFromBits // BV -> float (reinterpret)
	OFToBits   // float -> BV (only folds over OFFromBits / const)
	OSToF      // signed BV -> float (RNE)
	OUToF      // unsigned BV -> float (RNE)
	OFToS      // float -> signed BV (RTZ)
	OFToU      // float -> unsigned BV (RTZ)
	OFToF      // float -> float (RNE)
	OFRound    // roundToIntegral; val = mode (0 RNE, 1 RTN floor, 2 RTP ceil, 3 RTZ trunc)
	OUF        // uninterpreted function name(a[,b]) -> sort
)

var opNames = map[Op]string{
	ONot: "not", OAnd: "and", OOr: "or", OIte: "ite", OEq: "=",
	OAdd: "bvadd", OSub: "bvsub", OMul: "bvmul", OUDiv: "bvudiv", OSDiv: "bvsdiv", OURem: "bvurem", OSRem: "bvsrem",
	OBAnd: "bvand", OBOr: "bvor", OBXor: "bvxor", OBNot: "bvnot", ONeg: "bvneg", OShl: "bvshl", OLShr: "bvlshr", OAShr: "bvashr",
	OULt: "bvult", OULe: "bvule", OSLt: "bvslt", OSLe: "bvsle", OConcat: "concat",
	OFNeg: "fp.neg", OFAbs: "fp.abs", OFLt: "fp.lt", OFLe: "fp.leq", OFEq: "fp.eq", OFIsNaN: "fp.isNaN", OFIsInf: "fp.isInfinite",
}

type Term struct {
	op      Op
	sort    Sort
	a, b, c *Term
	val     uint64 // const payload (low 64 bits) / rounding mode
	hi      uint64 // const payload, high 64 bits of BV128
	id      int32  // >0 for hash-consed (non-const) terms
	name    string // OVar, OUF
	fp      bool   // contains a floating-point operation
	size    int32  // DAG-unaware size estimate (capped)
}

func (t *Term) IsConst() bool { return t.op == OConst }
func (t *Term) Sort() Sort    { return t.sort }
func (t *Term) UsesFP() bool  { return t.fp }

// Builder owns the hash-consing table. One per interpreter instance; not
// safe for concurrent use.
type Builder struct {
	tab    map[termKey]*Term
	nextID int32
	vars   []*Term
	ufs    map[string]*Term // one representative per UF name (for declarations)
	True   *Term
	False  *Term
}

type termKey struct {
	op      Op
	sort    Sort
	a, b, c int32
	ca, cb  uint64 // const operands folded into the key
	flags   uint8
	val     uint64
	name    string
}

func NewBuilder() *Builder {
	b := &Builder{tab: map[termKey]*Term{}, ufs: map[string]*Term{}}
	b.True = &Term{op: OConst, sort: SBool, val: 1}
	b.False = &Term{op: OConst, sort: SBool, val: 0}
	return b
}

func (b *Builder) Bool(v bool) *Term {
	if v {
		return b.True
	}
	return b.False
}

func maskOf(s Sort) uint64 {
	n := s.Bits()
	if n >= 64 {
		return ^uint64(0)
	}
	return (uint64(1) << uint(n)) - 1
}

// BV makes a constant bit-vector (≤64 bits) of the given sort.
func (b *Builder) BV(s Sort, v uint64) *Term {
	if s == SBV128 {
		return &Term{op: OConst, sort: s, val: v}
	}
	return &Term{op: OConst, sort: s, val: v & maskOf(s)}
}

func (b *Builder) BV128(hi, lo uint64) *Term {
	return &Term{op: OConst, sort: SBV128, val: lo, hi: hi}
}

func (b *Builder) F64(f float64) *Term {
	return &Term{op: OConst, sort: SF64, val: math.Float64bits(f), fp: false}
}
func (b *Builder) F32(f float32) *Term {
	return &Term{op: OConst, sort: SF32, val: uint64(math.Float32bits(f))}
}

func (t *Term) ConstBool() bool { return t.val != 0 }
func (t *Term) ConstU64() uint64 { return t.val }
func (t *Term) ConstF64() float64 {
	if t.sort == SF32 {
		return float64(math.Float32frombits(uint32(t.val)))
	}
	return math.Float64frombits(t.val)
}

// ConstS64 sign-extends the constant from its sort width.
func (t *Term) ConstS64() int64 {
	n := t.sort.Bits()
	if n >= 64 {
		return int64(t.val)
	}
	sh := uint(64 - n)
	return int64(t.val<<sh) >> sh
}

func (b *Builder) Var(name string, s Sort) *Term {
	k := termKey{op: OVar, sort: s, name: name}
	if t, ok := b.tab[k]; ok {
		return t
	}
	b.nextID++
	t := &Term{op: OVar, sort: s, name: name, id: b.nextID, size: 1}
	b.tab[k] = t
	b.vars = append(b.vars, t)
	return t
}

func (b *Builder) mk(op Op, s Sort, x, y, z *Term, val uint64, name string) *Term {
	k := termKey{op: op, sort: s, val: val, name: name}
	fp := false
	size := int32(1)
	set := func(t *Term, id *int32, cv *uint64, flag uint8) {
		if t == nil {
			return
		}
		if t.op == OConst {
			*id = -int32(t.sort) - 1
			*cv = t.val
			if t.sort == SBV128 {
				*cv ^= t.hi * 0x9e3779b97f4a7c15 // weak: disambiguated below
			}
			k.flags |= flag
		} else {
			*id = t.id
		}
		fp = fp || t.fp
		size += t.size
	}
	var dummy uint64
	set(x, &k.a, &k.ca, 1)
	set(y, &k.b, &k.cb, 2)
	set(z, &k.c, &dummy, 4)
	if z != nil && z.op == OConst {
		// fold third constant into name to keep the key exact
		k.name = fmt.Sprintf("%s|%d", name, z.val)
	}
	if (x != nil && x.op == OConst && x.sort == SBV128) || (y != nil && y.op == OConst && y.sort == SBV128) {
		hx, hy := uint64(0), uint64(0)
		if x != nil && x.op == OConst {
			hx = x.hi
		}
		if y != nil && y.op == OConst {
			hy = y.hi
		}
		k.name = fmt.Sprintf("%s|%x|%x", k.name, hx, hy)
	}
	if t, ok := b.tab[k]; ok {
		return t
	}
	switch op {
	case OFAdd, OFSub, OFMul, OFDiv, OFNeg, OFAbs, OFSqrt, OFLt, OFLe, OFEq, OFIsNaN, OFIsInf,
		OFFromBits, OFToBits, OSToF, OUToF, OFToS, OFToU, OFToF, OFRound:
		fp = true
	}
	if size > 1<<28 {
		size = 1 << 28
	}
	b.nextID++
	t := &Term{op: op, sort: s, a: x, b: y, c: z, val: val, name: name, id: b.nextID, fp: fp, size: size}
	b.tab[k] = t
	return t
}

// ---------------------------------------------------------------- Bool

func (b *Builder) Not(x *Term) *Term {
	if x.op == OConst {
		return b.Bool(x.val == 0)
	}
	if x.op == ONot {
		return x.a
	}
	return b.mk(ONot, SBool, x, nil, nil, 0, "")
}

func (b *Builder) And(x, y *Term) *Term {
	if x.op == OConst {
		if x.val == 0 {
			return b.False
		}
		return y
	}
	if y.op == OConst {
		if y.val == 0 {
			return b.False
		}
		return x
	}
	if x == y {
		return x
	}
	return b.mk(OAnd, SBool, x, y, nil, 0, "")
}

func (b *Builder) Or(x, y *Term) *Term {
	if x.op == OConst {
		if x.val != 0 {
			return b.True
		}
		return y
	}
	if y.op == OConst {
		if y.val != 0 {
			return b.True
		}
		return x
	}
	if x == y {
		return x
	}
	return b.mk(OOr, SBool, x, y, nil, 0, "")
}

func (b *Builder) Implies(x, y *Term) *Term { return b.Or(b.Not(x), y) }

func sameConst(x, y *Term) bool {
	return x.sort == y.sort && x.val == y.val && x.hi == y.hi
}

func (b *Builder) Ite(c, x, y *Term) *Term {
	if c.op == OConst {
		if c.val != 0 {
			return x
		}
		return y
	}
	if x == y {
		return x
	}
	if x.op == OConst && y.op == OConst {
		if sameConst(x, y) && !(x.sort.IsFloat()) {
			return x
		}
		if x.sort == SBool {
			if x.val != 0 && y.val == 0 {
				return c
			}
			if x.val == 0 && y.val != 0 {
				return b.Not(c)
			}
		}
	}
	if x.sort != y.sort {
		panic(fmt.Sprintf("ite sort mismatch %v %v", x.sort, y.sort))
	}
	return b.mk(OIte, x.sort, c, x, y, 0, "")
}

// Eq is structural/bitwise equality for Bool and BV sorts. For floats use FEq
// (IEEE) or compare bit patterns.
func (b *Builder) Eq(x, y *Term) *Term {
	if x.sort != y.sort {
		panic(fmt.Sprintf("eq sort mismatch %v %v", x.sort, y.sort))
	}
	if x.sort.IsFloat() {
		panic("Eq on float sort; use FEq")
	}
	if x.op == OConst && y.op == OConst {
		return b.Bool(sameConst(x, y))
	}
	if x == y {
		return b.True
	}
	if x.sort == SBool {
		if x.op == OConst {
			x, y = y, x
		}
		if y.op == OConst {
			if y.val != 0 {
				return x
			}
			return b.Not(x)
		}
	}
	// zext(a) == const  where const does not fit: false; else compare narrow
	if y.op == OConst && x.op == OZExt && y.sort != SBV128 {
		in := x.a
		if y.val > maskOf(in.sort) {
			return b.False
		}
		return b.Eq(in, b.BV(in.sort, y.val))
	}
	if x.op == OConst && y.op == OZExt && x.sort != SBV128 {
		return b.Eq(y, x)
	}
	// ite(c, k1, k2) == k  with constants
	if y.op == OConst && x.op == OIte && x.b.op == OConst && x.c.op == OConst {
		e1, e2 := sameConst(x.b, y), sameConst(x.c, y)
		switch {
		case e1 && e2:
			return b.True
		case e1:
			return x.a
		case e2:
			return b.Not(x.a)
		default:
			return b.False
		}
	}
	if x.op == OConst { // canonical: const on the right
		x, y = y, x
	} else if y.op != OConst && x.id > y.id {
		x, y = y, x
	}
	return b.mk(OEq, SBool, x, y, nil, 0, "")
}

func (b *Builder) Ne(x, y *Term) *Term { return b.Not(b.Eq(x, y)) }

// ---------------------------------------------------------------- BV

func (t *Term) big() *big.Int {
	v := new(big.Int).SetUint64(t.hi)
	v.Lsh(v, 64)
	v.Or(v, new(big.Int).SetUint64(t.val))
	return v
}

func (b *Builder) fromBig(s Sort, v *big.Int) *Term {
	m := new(big.Int).Lsh(big.NewInt(1), uint(s.Bits()))
	v = new(big.Int).Mod(v, m)
	lo := new(big.Int).And(v, new(big.Int).SetUint64(^uint64(0))).Uint64()
	hi := new(big.Int).Rsh(v, 64).Uint64()
	if s == SBV128 {
		return b.BV128(hi, lo)
	}
	return b.BV(s, lo)
}

func sext64(v uint64, s Sort) int64 {
	n := s.Bits()
	if n >= 64 {
		return int64(v)
	}
	sh := uint(64 - n)
	return int64(v<<sh) >> sh
}

func (b *Builder) isZero(t *Term) bool { return t.op == OConst && t.val == 0 && t.hi == 0 }
func (b *Builder) isOnes(t *Term) bool {
	if t.op != OConst {
		return false
	}
	if t.sort == SBV128 {
		return t.val == ^uint64(0) && t.hi == ^uint64(0)
	}
	return t.val == maskOf(t.sort)
}

// Bin builds a bit-vector binary operation (arith/bitwise/shift). Division
// by zero must be excluded by the caller (Go panics there).
func (b *Builder) Bin(op Op, x, y *Term) *Term {
	if x.sort != y.sort {
		panic(fmt.Sprintf("bin %v sort mismatch %v %v", opNames[op], x.sort, y.sort))
	}
	s := x.sort
	if x.op == OConst && y.op == OConst {
		if s == SBV128 {
			return b.fold128(op, x, y)
		}
		return b.BV(s, fold64(op, s, x.val, y.val))
	}
	switch op {
	case OAdd:
		if b.isZero(x) {
			return y
		}
		if b.isZero(y) {
			return x
		}
		// (t + c1) + c2
		if y.op == OConst && x.op == OAdd && x.b.op == OConst && s != SBV128 {
			return b.Bin(OAdd, x.a, b.BV(s, x.b.val+y.val))
		}
		if x.op == OConst {
			x, y = y, x
		}
	case OSub:
		if b.isZero(y) {
			return x
		}
		if x == y {
			return b.BV(s, 0)
		}
		if y.op == OConst && s != SBV128 {
			return b.Bin(OAdd, x, b.BV(s, -y.val))
		}
	case OMul:
		if b.isZero(x) || b.isZero(y) {
			return b.fromBig(s, big.NewInt(0))
		}
		if x.op == OConst && x.val == 1 && x.hi == 0 {
			return y
		}
		if y.op == OConst && y.val == 1 && y.hi == 0 {
			return x
		}
		if x.op == OConst {
			x, y = y, x
		}
	case OBAnd:
		if b.isZero(x) || b.isZero(y) {
			return b.fromBig(s, big.NewInt(0))
		}
		if b.isOnes(x) {
			return y
		}
		if b.isOnes(y) {
			return x
		}
		if x == y {
			return x
		}
		if x.op == OConst {
			x, y = y, x
		}
	case OBOr:
		if b.isZero(x) {
			return y
		}
		if b.isZero(y) {
			return x
		}
		if x == y {
			return x
		}
		if x.op == OConst {
			x, y = y, x
		}
	case OBXor:
		if b.isZero(x) {
			return y
		}
		if b.isZero(y) {
			return x
		}
		if x == y {
			return b.fromBig(s, big.NewInt(0))
		}
		if x.op == OConst {
			x, y = y, x
		}
	case OShl, OLShr, OAShr:
		if b.isZero(y) {
			return x
		}
		if b.isZero(x) {
			return x
		}
	case OUDiv, OSDiv:
		if y.op == OConst && y.val == 1 && y.hi == 0 {
			return x
		}
	}
	return b.mk(op, s, x, y, nil, 0, "")
}

func fold64(op Op, s Sort, x, y uint64) uint64 {
	n := uint64(s.Bits())
	sx, sy := sext64(x, s), sext64(y, s)
	switch op {
	case OAdd:
		return x + y
	case OSub:
		return x - y
	case OMul:
		return x * y
	case OUDiv:
		if y == 0 {
			return maskOf(s)
		}
		return x / y
	case OURem:
		if y == 0 {
			return x
		}
		return x % y
	case OSDiv:
		if sy == 0 {
			if sx < 0 {
				return 1
			}
			return maskOf(s)
		}
		if sy == -1 {
			return uint64(-sx)
		}
		return uint64(sx / sy)
	case OSRem:
		if sy == 0 {
			return x
		}
		if sy == -1 {
			return 0
		}
		return uint64(sx % sy)
	case OBAnd:
		return x & y
	case OBOr:
		return x | y
	case OBXor:
		return x ^ y
	case OShl:
		if y >= n {
			return 0
		}
		return x << y
	case OLShr:
		if y >= n {
			return 0
		}
		return x >> y
	case OAShr:
		if y >= n {
			if sx < 0 {
				return ^uint64(0)
			}
			return 0
		}
		return uint64(sx >> y)
	}
	panic("fold64: bad op")
}

func (b *Builder) fold128(op Op, x, y *Term) *Term {
	bx, by := x.big(), y.big()
	r := new(big.Int)
	switch op {
	case OAdd:
		r.Add(bx, by)
	case OSub:
		r.Sub(bx, by)
	case OMul:
		r.Mul(bx, by)
	case OBAnd:
		r.And(bx, by)
	case OBOr:
		r.Or(bx, by)
	case OBXor:
		r.Xor(bx, by)
	case OShl:
		if by.BitLen() > 8 || by.Uint64() >= 128 {
			r.SetInt64(0)
		} else {
			r.Lsh(bx, uint(by.Uint64()))
		}
	case OLShr:
		if by.BitLen() > 8 || by.Uint64() >= 128 {
			r.SetInt64(0)
		} else {
			r.Rsh(bx, uint(by.Uint64()))
		}
	case OUDiv:
		if by.Sign() == 0 {
			return b.BV128(^uint64(0), ^uint64(0))
		}
		r.Div(bx, by)
	case OURem:
		if by.Sign() == 0 {
			return x
		}
		r.Mod(bx, by)
	default:
		panic("fold128: unsupported op " + opNames[op])
	}
	return b.fromBig(SBV128, r)
}

func (b *Builder) BNot(x *Term) *Term {
	if x.op == OConst {
		if x.sort == SBV128 {
			return b.BV128(^x.hi, ^x.val)
		}
		return b.BV(x.sort, ^x.val)
	}
	if x.op == OBNot {
		return x.a
	}
	return b.mk(OBNot, x.sort, x, nil, nil, 0, "")
}

func (b *Builder) Neg(x *Term) *Term {
	if x.op == OConst {
		if x.sort == SBV128 {
			return b.fromBig(SBV128, new(big.Int).Neg(x.big()))
		}
		return b.BV(x.sort, -x.val)
	}
	return b.mk(ONeg, x.sort, x, nil, nil, 0, "")
}

// Cmp builds OULt/OULe/OSLt/OSLe.
func (b *Builder) Cmp(op Op, x, y *Term) *Term {
	if x.sort != y.sort {
		panic(fmt.Sprintf("cmp sort mismatch %v %v", x.sort, y.sort))
	}
	s := x.sort
	if x.op == OConst && y.op == OConst {
		if s == SBV128 {
			c := x.big().Cmp(y.big())
			switch op {
			case OULt:
				return b.Bool(c < 0)
			case OULe:
				return b.Bool(c <= 0)
			}
			panic("signed 128 compare unsupported")
		}
		switch op {
		case OULt:
			return b.Bool(x.val < y.val)
		case OULe:
			return b.Bool(x.val <= y.val)
		case OSLt:
			return b.Bool(sext64(x.val, s) < sext64(y.val, s))
		case OSLe:
			return b.Bool(sext64(x.val, s) <= sext64(y.val, s))
		}
	}
	if x == y {
		return b.Bool(op == OULe || op == OSLe)
	}
	// Comparisons of a zero-extended narrow value against a constant: decide
	// by range when possible, else compare in the narrow sort (unsigned).
	if s != SBV128 {
		if x.op == OZExt && y.op == OConst {
			in := x.a
			m := maskOf(in.sort)
			yv := y.val
			signed := op == OSLt || op == OSLe
			if signed && sext64(yv, s) < 0 {
				return b.False // zext is non-negative
			}
			if yv > m {
				return b.True
			}
			nop := op
			if signed {
				if op == OSLt {
					nop = OULt
				} else {
					nop = OULe
				}
			}
			return b.Cmp(nop, in, b.BV(in.sort, yv))
		}
		if y.op == OZExt && x.op == OConst {
			in := y.a
			m := maskOf(in.sort)
			xv := x.val
			signed := op == OSLt || op == OSLe
			if signed && sext64(xv, s) < 0 {
				return b.True
			}
			if xv > m {
				return b.False
			}
			nop := op
			if signed {
				if op == OSLt {
					nop = OULt
				} else {
					nop = OULe
				}
			}
			return b.Cmp(nop, b.BV(in.sort, xv), in)
		}
	}
	if op == OULt && b.isZero(y) {
		return b.False
	}
	if op == OULe && b.isZero(x) {
		return b.True
	}
	return b.mk(op, SBool, x, y, nil, 0, "")
}

func (b *Builder) ZExt(x *Term, to Sort) *Term {
	if x.sort == to {
		return x
	}
	if to.Bits() < x.sort.Bits() {
		panic("zext to narrower sort")
	}
	if x.op == OConst {
		if to == SBV128 {
			return b.BV128(x.hi, x.val)
		}
		return b.BV(to, x.val)
	}
	if x.op == OZExt {
		return b.ZExt(x.a, to)
	}
	return b.mk(OZExt, to, x, nil, nil, 0, "")
}

func (b *Builder) SExt(x *Term, to Sort) *Term {
	if x.sort == to {
		return x
	}
	if to.Bits() < x.sort.Bits() {
		panic("sext to narrower sort")
	}
	if x.op == OConst {
		v := uint64(sext64(x.val, x.sort))
		if to == SBV128 {
			hi := uint64(0)
			if int64(v) < 0 {
				hi = ^uint64(0)
			}
			return b.BV128(hi, v)
		}
		return b.BV(to, v)
	}
	if x.op == OZExt { // sign bit is zero
		return b.ZExt(x.a, to)
	}
	return b.mk(OSExt, to, x, nil, nil, 0, "")
}

func (b *Builder) Trunc(x *Term, to Sort) *Term {
	if x.sort == to {
		return x
	}
	if to.Bits() > x.sort.Bits() {
		panic("trunc to wider sort")
	}
	if x.op == OConst {
		return b.BV(to, x.val)
	}
	if x.op == OZExt || x.op == OSExt {
		in := x.a
		if in.sort == to {
			return in
		}
		if in.sort.Bits() > to.Bits() {
			return b.Trunc(in, to)
		}
		if x.op == OZExt {
			return b.ZExt(in, to)
		}
		return b.SExt(in, to)
	}
	return b.mk(OTrunc, to, x, nil, nil, 0, "")
}

// Hi64 returns the high 64 bits of a 128-bit vector.
func (b *Builder) Hi64(x *Term) *Term {
	if x.sort != SBV128 {
		panic("Hi64 of non-128")
	}
	if x.op == OConst {
		return b.BV(SBV64, x.hi)
	}
	return b.Trunc(b.Bin(OLShr, x, b.BV128(0, 64)), SBV64)
}

// ---------------------------------------------------------------- FP

func (b *Builder) fconst(s Sort, f float64) *Term {
	if s == SF32 {
		return b.F32(float32(f))
	}
	return b.F64(f)
}

func (b *Builder) FBin(op Op, x, y *Term) *Term {
	if x.sort != y.sort {
		panic("fbin sort mismatch")
	}
	if x.op == OConst && y.op == OConst {
		if x.sort == SF32 {
			fx, fy := math.Float32frombits(uint32(x.val)), math.Float32frombits(uint32(y.val))
			var r float32
			switch op {
			case OFAdd:
				r = fx + fy
			case OFSub:
				r = fx - fy
			case OFMul:
				r = fx * fy
			case OFDiv:
				r = fx / fy
			}
			return b.F32(r)
		}
		fx, fy := x.ConstF64(), y.ConstF64()
		var r float64
		switch op {
		case OFAdd:
			r = fx + fy
		case OFSub:
			r = fx - fy
		case OFMul:
			r = fx * fy
		case OFDiv:
			r = fx / fy
		}
		return b.F64(r)
	}
	return b.mk(op, x.sort, x, y, nil, 0, "")
}

func (b *Builder) FCmp(op Op, x, y *Term) *Term {
	if x.op == OConst && y.op == OConst {
		fx, fy := x.ConstF64(), y.ConstF64()
		switch op {
		case OFLt:
			return b.Bool(fx < fy)
		case OFLe:
			return b.Bool(fx <= fy)
		case OFEq:
			return b.Bool(fx == fy)
		}
	}
	return b.mk(op, SBool, x, y, nil, 0, "")
}

func (b *Builder) FUn(op Op, x *Term) *Term {
	if x.op == OConst {
		f := x.ConstF64()
		switch op {
		case OFNeg:
			if x.sort == SF32 {
				return &Term{op: OConst, sort: SF32, val: x.val ^ (1 << 31)}
			}
			return &Term{op: OConst, sort: SF64, val: x.val ^ (1 << 63)}
		case OFAbs:
			return b.fconst(x.sort, math.Abs(f))
		case OFSqrt:
			if x.sort == SF32 {
				return b.F32(float32(math.Sqrt(f)))
			}
			return b.F64(math.Sqrt(f))
		case OFIsNaN:
			return b.Bool(f != f)
		case OFIsInf:
			return b.Bool(math.IsInf(f, 0))
		}
	}
	s := x.sort
	if op == OFIsNaN || op == OFIsInf {
		s = SBool
	}
	return b.mk(op, s, x, nil, nil, 0, "")
}

func (b *Builder) FRound(x *Term, mode int) *Term {
	if x.op == OConst {
		f := x.ConstF64()
		switch mode {
		case 0:
			f = math.RoundToEven(f)
		case 1:
			f = math.Floor(f)
		case 2:
			f = math.Ceil(f)
		case 3:
			f = math.Trunc(f)
		}
		return b.fconst(x.sort, f)
	}
	return b.mk(OFRound, x.sort, x, nil, nil, uint64(mode), "")
}

func (b *Builder) FFromBits(x *Term) *Term {
	var s Sort
	switch x.sort {
	case SBV64:
		s = SF64
	case SBV32:
		s = SF32
	default:
		panic("FFromBits: bad width")
	}
	if x.op == OConst {
		return &Term{op: OConst, sort: s, val: x.val}
	}
	if x.op == OFToBits {
		return x.a
	}
	return b.mk(OFFromBits, s, x, nil, nil, 0, "")
}

// FToBits reinterprets a float as its bit pattern. Only defined here for
// constants and for floats that were themselves made from bits; other terms
// are not expressible in SMT-LIB without an auxiliary variable and are
// rejected by the interpreter as unsupported.
func (b *Builder) FToBits(x *Term) (*Term, bool) {
	s := SBV64
	if x.sort == SF32 {
		s = SBV32
	}
	if x.op == OConst {
		return b.BV(s, x.val), true
	}
	if x.op == OFFromBits {
		return x.a, true
	}
	return nil, false
}

func (b *Builder) IntToF(x *Term, signed bool, to Sort) *Term {
	if x.op == OConst {
		var f float64
		if x.sort == SBV128 {
			bf := new(big.Float).SetInt(x.big())
			f, _ = bf.Float64()
			if to == SF32 {
				f32, _ := bf.Float32()
				return b.F32(f32)
			}
			return b.F64(f)
		}
		if signed {
			sv := sext64(x.val, x.sort)
			if to == SF32 {
				return b.F32(float32(sv))
			}
			return b.F64(float64(sv))
		}
		if to == SF32 {
			return b.F32(float32(x.val))
		}
		return b.F64(float64(x.val))
	}
	op := OUToF
	if signed {
		op = OSToF
	}
	return b.mk(op, to, x, nil, nil, 0, "")
}

func (b *Builder) FToInt(x *Term, signed bool, to Sort) *Term {
	if x.op == OConst {
		f := x.ConstF64()
		if signed {
			return b.BV(to, uint64(int64(f)))
		}
		return b.BV(to, uint64(f))
	}
	op := OFToU
	if signed {
		op = OFToS
	}
	return b.mk(op, to, x, nil, nil, 0, "")
}

func (b *Builder) FToF(x *Term, to Sort) *Term {
	if x.sort == to {
		return x
	}
	if x.op == OConst {
		f := x.ConstF64()
		return b.fconst(to, f)
	}
	return b.mk(OFToF, to, x, nil, nil, 0, "")
}

// UF applies an uninterpreted function. All applications of one name must
// have the same signature.
func (b *Builder) UF(name string, ret Sort, x, y *Term) *Term {
	t := b.mk(OUF, ret, x, y, nil, 0, name)
	if _, ok := b.ufs[name]; !ok {
		b.ufs[name] = t
	}
	return t
}

// ---------------------------------------------------------------- printing

func bvLit(bitsN int, hi, lo uint64) string {
	switch {
	case bitsN == 128:
		return fmt.Sprintf("#x%016x%016x", hi, lo)
	case bitsN%4 == 0:
		return fmt.Sprintf("#x%0*x", bitsN/4, lo)
	}
	return fmt.Sprintf("#b%0*b", bitsN, lo)
}

func constSMT(t *Term) string {
	switch t.sort {
	case SBool:
		if t.val != 0 {
			return "true"
		}
		return "false"
	case SF64:
		v := t.val
		return fmt.Sprintf("(fp #b%b #b%011b #b%052b)", v>>63, (v>>52)&0x7ff, v&((1<<52)-1))
	case SF32:
		v := t.val
		return fmt.Sprintf("(fp #b%b #b%08b #b%023b)", (v>>31)&1, (v>>23)&0xff, v&((1<<23)-1))
	}
	return bvLit(t.sort.Bits(), t.hi, t.val)
}

func (t *Term) ref() string {
	switch t.op {
	case OConst:
		return constSMT(t)
	case OVar:
		return t.name
	}
	return fmt.Sprintf("t%d", t.id)
}

var rmNames = []string{"RNE", "RTN", "RTP", "RTZ"}

// body returns the SMT-LIB expression of t in terms of the refs of its children.
func (t *Term) body() string {
	switch t.op {
	case OConst, OVar:
		return t.ref()
	case OZExt:
		return fmt.Sprintf("((_ zero_extend %d) %s)", t.sort.Bits()-t.a.sort.Bits(), t.a.ref())
	case OSExt:
		return fmt.Sprintf("((_ sign_extend %d) %s)", t.sort.Bits()-t.a.sort.Bits(), t.a.ref())
	case OTrunc:
		return fmt.Sprintf("((_ extract %d 0) %s)", t.sort.Bits()-1, t.a.ref())
	case OFAdd, OFSub, OFMul, OFDiv:
		n := map[Op]string{OFAdd: "fp.add", OFSub: "fp.sub", OFMul: "fp.mul", OFDiv: "fp.div"}[t.op]
		return fmt.Sprintf("(%s RNE %s %s)", n, t.a.ref(), t.b.ref())
	case OFSqrt:
		return fmt.Sprintf("(fp.sqrt RNE %s)", t.a.ref())
	case OFRound:
		return fmt.Sprintf("(fp.roundToIntegral %s %s)", rmNames[t.val], t.a.ref())
	case OFFromBits:
		if t.sort == SF32 {
			return fmt.Sprintf("((_ to_fp 8 24) %s)", t.a.ref())
		}
		return fmt.Sprintf("((_ to_fp 11 53) %s)", t.a.ref())
	case OSToF, OUToF, OFToF:
		eb, sb := 11, 53
		if t.sort == SF32 {
			eb, sb = 8, 24
		}
		fn := "to_fp"
		if t.op == OUToF {
			fn = "to_fp_unsigned"
		}
		return fmt.Sprintf("((_ %s %d %d) RNE %s)", fn, eb, sb, t.a.ref())
	case OFToS:
		return fmt.Sprintf("((_ fp.to_sbv %d) RTZ %s)", t.sort.Bits(), t.a.ref())
	case OFToU:
		return fmt.Sprintf("((_ fp.to_ubv %d) RTZ %s)", t.sort.Bits(), t.a.ref())
	case OUF:
		if t.b != nil {
			return fmt.Sprintf("(%s %s %s)", t.name, t.a.ref(), t.b.ref())
		}
		return fmt.Sprintf("(%s %s)", t.name, t.a.ref())
	case OFToBits:
		panic("OFToBits is never materialised")
	}
	n, ok := opNames[t.op]
	if !ok {
		panic(fmt.Sprintf("body: op %d", t.op))
	}
	var sb strings.Builder
	sb.WriteByte('(')
	sb.WriteString(n)
	for _, c := range []*Term{t.a, t.b, t.c} {
		if c != nil {
			sb.WriteByte(' ')
			sb.WriteString(c.ref())
		}
	}
	sb.WriteByte(')')
	return sb.String()
}

// String renders t fully inlined (for debugging and evidence samples);
// large terms are abbreviated.
func (t *Term) String() string {
	var sb strings.Builder
	t.str(&sb, 6)
	return sb.String()
}

func (t *Term) str(sb *strings.Builder, depth int) {
	switch t.op {
	case OConst:
		switch {
		case t.sort == SBool:
			fmt.Fprintf(sb, "%v", t.val != 0)
		case t.sort.IsFloat():
			fmt.Fprintf(sb, "%v", t.ConstF64())
		case t.sort == SBV128:
			fmt.Fprintf(sb, "0x%x%016x", t.hi, t.val)
		default:
			fmt.Fprintf(sb, "%d", t.val)
		}
		return
	case OVar:
		sb.WriteString(t.name)
		return
	}
	if depth == 0 {
		fmt.Fprintf(sb, "t%d", t.id)
		return
	}
	n := opNames[t.op]
	if n == "" {
		n = fmt.Sprintf("op%d", t.op)
		switch t.op {
		case OZExt:
			n = "zext"
		case OSExt:
			n = "sext"
		case OTrunc:
			n = "trunc"
		case OFFromBits:
			n = "f.frombits"
		case OUF:
			n = t.name
		case OFAdd:
			n = "f+"
		case OFSub:
			n = "f-"
		case OFMul:
			n = "f*"
		case OFDiv:
			n = "f/"
		}
	}
	sb.WriteByte('(')
	sb.WriteString(n)
	for _, c := range []*Term{t.a, t.b, t.c} {
		if c != nil {
			sb.WriteByte(' ')
			c.str(sb, depth-1)
		}
	}
	sb.WriteByte(')')
}

// ---------------------------------------------------------------- evaluation

// Model maps variable names to constant values (BV up to 64 bits and Bool).
type Model map[string]uint64

type evalVal struct {
	lo, hi uint64
}

// Eval evaluates t under m. ok is false when t contains something the
// evaluator does not handle (UFs, 128-bit signed ops).
func (b *Builder) Eval(t *Term, m Model) (res *Term, ok bool) {
	defer func() {
		if r := recover(); r != nil {
			res, ok = nil, false
		}
	}()
	memo := map[*Term]*Term{}
	return b.eval(t, m, memo), true
}

func (b *Builder) eval(t *Term, m Model, memo map[*Term]*Term) *Term {
	if t.op == OConst {
		return t
	}
	if r, ok := memo[t]; ok {
		return r
	}
	var r *Term
	ev := func(x *Term) *Term { return b.eval(x, m, memo) }
	switch t.op {
	case OVar:
		v, ok := m[t.name]
		if !ok {
			v = 0
		}
		if t.sort == SBool {
			r = b.Bool(v != 0)
		} else {
			r = b.BV(t.sort, v)
		}
	case ONot:
		r = b.Not(ev(t.a))
	case OAnd:
		x := ev(t.a)
		if x.val == 0 {
			r = x
		} else {
			r = ev(t.b)
		}
	case OOr:
		x := ev(t.a)
		if x.val != 0 {
			r = x
		} else {
			r = ev(t.b)
		}
	case OIte:
		if ev(t.a).val != 0 {
			r = ev(t.b)
		} else {
			r = ev(t.c)
		}
	case OEq:
		r = b.Eq(ev(t.a), ev(t.b))
	case OAdd, OSub, OMul, OUDiv, OSDiv, OURem, OSRem, OBAnd, OBOr, OBXor, OShl, OLShr, OAShr:
		r = b.Bin(t.op, ev(t.a), ev(t.b))
	case OBNot:
		r = b.BNot(ev(t.a))
	case ONeg:
		r = b.Neg(ev(t.a))
	case OULt, OULe, OSLt, OSLe:
		r = b.Cmp(t.op, ev(t.a), ev(t.b))
	case OZExt:
		r = b.ZExt(ev(t.a), t.sort)
	case OSExt:
		r = b.SExt(ev(t.a), t.sort)
	case OTrunc:
		r = b.Trunc(ev(t.a), t.sort)
	case OFAdd, OFSub, OFMul, OFDiv:
		r = b.FBin(t.op, ev(t.a), ev(t.b))
	case OFLt, OFLe, OFEq:
		r = b.FCmp(t.op, ev(t.a), ev(t.b))
	case OFNeg, OFAbs, OFSqrt, OFIsNaN, OFIsInf:
		r = b.FUn(t.op, ev(t.a))
	case OFRound:
		r = b.FRound(ev(t.a), int(t.val))
	case OFFromBits:
		r = b.FFromBits(ev(t.a))
	case OSToF:
		r = b.IntToF(ev(t.a), true, t.sort)
	case OUToF:
		r = b.IntToF(ev(t.a), false, t.sort)
	case OFToS:
		r = b.FToInt(ev(t.a), true, t.sort)
	case OFToU:
		r = b.FToInt(ev(t.a), false, t.sort)
	case OFToF:
		r = b.FToF(ev(t.a), t.sort)
	default:
		panic("eval: unsupported op")
	}
	if r.op != OConst {
		panic("eval: non-constant result")
	}
	memo[t] = r
	return r
}

// Mul64 returns the 128-bit product of two 64-bit terms as (hi, lo).
func (b *Builder) Mul64(x, y *Term) (hi, lo *Term) {
	if x.op == OConst && y.op == OConst {
		h, l := bits.Mul64(x.val, y.val)
		return b.BV(SBV64, h), b.BV(SBV64, l)
	}
	p := b.Bin(OMul, b.ZExt(x, SBV128), b.ZExt(y, SBV128))
	return b.Hi64(p), b.Trunc(p, SBV64)
}

package sx

import (
	"fmt"
	"go/constant"
	"go/token"
	"go/types"
	"unicode/utf8"

	"golang.org/x/tools/go/ssa"
)

func (i *interpreter) constValue(c *ssa.Const) value {
	if c.Value == nil {
		return i.zero(c.Type())
	}
	t, ok := c.Type().Underlying().(*types.Basic)
	if !ok {
		panic(fmt.Sprintf("constValue: %s", c))
	}
	if k, ok := scalarKind(t); ok {
		switch {
		case k.sort == SBool:
			return i.b.Bool(constant.BoolVal(c.Value))
		case k.sort == SF64:
			return i.b.F64(c.Float64())
		case k.sort == SF32:
			return i.b.F32(float32(c.Float64()))
		case k.signed:
			return i.b.BV(k.sort, uint64(c.Int64()))
		default:
			return i.b.BV(k.sort, c.Uint64())
		}
	}
	switch t.Kind() {
	case types.String, types.UntypedString:
		if c.Value.Kind() == constant.String {
			return constant.StringVal(c.Value)
		}
		return string(rune(c.Int64()))
	case types.Complex64, types.Complex128, types.UntypedComplex:
		return c.Complex128()
	}
	panic(fmt.Sprintf("constValue: %s", c))
}

// slice returns x[lo:hi:max].
func (i *interpreter) slice(x, lo, hi, max value) value {
	var Len, Cap int
	switch x := x.(type) {
	case string, symstr:
		Len = strLen(x)
		Cap = Len
	case []value:
		Len = len(x)
		Cap = cap(x)
	case *value:
		if x == nil {
			nilDeref()
		}
		a := (*x).(array)
		Len = len(a)
		Cap = len(a)
	default:
		panic(fmt.Sprintf("slice: unexpected X type: %T", x))
	}
	_, isStr := x.(string)
	if _, ok := x.(symstr); ok {
		isStr = true
	}

	// Bounds: 0 <= l <= h <= m <= cap (for strings h <= len).
	m := int64(Cap)
	if max != nil {
		m = i.boundedIdx(max, 0, int64(Cap), "slice max")
	}
	upper := m
	if isStr {
		upper = int64(Len)
	}
	h := int64(Len)
	if hi != nil {
		h = i.boundedIdx(hi, 0, upper, "slice high")
	} else if h > upper {
		rtPanic("slice bounds out of range")
	}
	l := int64(0)
	if lo != nil {
		l = i.boundedIdx(lo, 0, h, "slice low")
	}

	switch x := x.(type) {
	case string, symstr:
		return i.strSlice(x, int(l), int(h))
	case []value:
		return x[l:h:m]
	case *value:
		a := (*x).(array)
		return []value(a)[l:h:m]
	}
	panic("unreachable")
}

// boundedIdx concretizes v and checks lo <= v <= hi.
func (i *interpreter) boundedIdx(v value, lo, hi int64, what string) int64 {
	t := v.(*Term)
	if t.op != OConst {
		w := t
		if w.sort != SBV64 {
			w = i.b.SExt(t, SBV64)
		}
		in := i.b.And(i.b.Cmp(OSLe, i.b.BV(SBV64, uint64(lo)), w), i.b.Cmp(OSLe, w, i.b.BV(SBV64, uint64(hi))))
		if !i.decide(in) {
			rtPanic(fmt.Sprintf("slice bounds out of range [%s symbolic] with bound %d", what, hi))
		}
	}
	n := i.concInt(v, what)
	if n < lo || n > hi {
		rtPanic(fmt.Sprintf("slice bounds out of range [%s %d] with bound %d", what, n, hi))
	}
	return n
}

func (i *interpreter) lookup(instr *ssa.Lookup, x, idx value) value {
	m, ok := x.(*smap)
	if !ok {
		panic(fmt.Sprintf("unexpected x type in Lookup: %T", x))
	}
	var v value
	e := i.mapFind(m, idx)
	if e != nil {
		v = copyVal(e.val)
	} else {
		v = i.zero(instr.X.Type().Underlying().(*types.Map).Elem())
	}
	if instr.CommaOk {
		v = tuple{v, i.b.Bool(e != nil)}
	}
	return v
}

func (i *interpreter) binop(op token.Token, t types.Type, x, y value) value {
	b := i.b
	if xt, ok := x.(*Term); ok {
		yt := y.(*Term)
		k, ok := scalarKind(t)
		if !ok {
			panic(fmt.Sprintf("binop: scalar operands of non-scalar type %v", t))
		}
		switch {
		case k.sort == SBool:
			switch op {
			case token.EQL:
				return b.Eq(xt, yt)
			case token.NEQ:
				return b.Not(b.Eq(xt, yt))
			case token.AND, token.LAND:
				return b.And(xt, yt)
			case token.OR, token.LOR:
				return b.Or(xt, yt)
			}
		case k.sort.IsFloat():
			switch op {
			case token.ADD:
				return b.FBin(OFAdd, xt, yt)
			case token.SUB:
				return b.FBin(OFSub, xt, yt)
			case token.MUL:
				return b.FBin(OFMul, xt, yt)
			case token.QUO:
				return b.FBin(OFDiv, xt, yt)
			case token.EQL:
				return b.FCmp(OFEq, xt, yt)
			case token.NEQ:
				return b.Not(b.FCmp(OFEq, xt, yt))
			case token.LSS:
				return b.FCmp(OFLt, xt, yt)
			case token.LEQ:
				return b.FCmp(OFLe, xt, yt)
			case token.GTR:
				return b.FCmp(OFLt, yt, xt)
			case token.GEQ:
				return b.FCmp(OFLe, yt, xt)
			}
		default:
			switch op {
			case token.ADD:
				return b.Bin(OAdd, xt, yt)
			case token.SUB:
				return b.Bin(OSub, xt, yt)
			case token.MUL:
				return b.Bin(OMul, xt, yt)
			case token.QUO, token.REM:
				if i.decide(b.Eq(yt, b.BV(yt.sort, 0))) {
					rtPanic("integer divide by zero")
				}
				var o Op
				switch {
				case op == token.QUO && k.signed:
					o = OSDiv
				case op == token.QUO:
					o = OUDiv
				case k.signed:
					o = OSRem
				default:
					o = OURem
				}
				return b.Bin(o, xt, yt)
			case token.AND:
				return b.Bin(OBAnd, xt, yt)
			case token.OR:
				return b.Bin(OBOr, xt, yt)
			case token.XOR:
				return b.Bin(OBXor, xt, yt)
			case token.AND_NOT:
				return b.Bin(OBAnd, xt, b.BNot(yt))
			case token.SHL, token.SHR:
				return i.shift(op, k, xt, yt)
			case token.EQL:
				return b.Eq(xt, yt)
			case token.NEQ:
				return b.Not(b.Eq(xt, yt))
			case token.LSS, token.LEQ, token.GTR, token.GEQ:
				lt, le := OULt, OULe
				if k.signed {
					lt, le = OSLt, OSLe
				}
				switch op {
				case token.LSS:
					return b.Cmp(lt, xt, yt)
				case token.LEQ:
					return b.Cmp(le, xt, yt)
				case token.GTR:
					return b.Cmp(lt, yt, xt)
				case token.GEQ:
					return b.Cmp(le, yt, xt)
				}
			}
		}
		panic(fmt.Sprintf("invalid binary op: %v %s %v (type %v)", xt, op, yt, t))
	}

	if isString(t) {
		switch op {
		case token.ADD:
			return i.strConcat(x, y)
		case token.EQL:
			return i.strEq(x, y)
		case token.NEQ:
			return b.Not(i.strEq(x, y))
		case token.LSS:
			return i.strLess(x, y)
		case token.GTR:
			return i.strLess(y, x)
		case token.LEQ:
			return b.Not(i.strLess(y, x))
		case token.GEQ:
			return b.Not(i.strLess(x, y))
		}
	}
	switch op {
	case token.EQL:
		return i.eqnil(t, x, y)
	case token.NEQ:
		return b.Not(i.eqnil(t, x, y))
	}
	if _, ok := x.(complex128); ok {
		i.unsupported("complex arithmetic")
	}
	panic(fmt.Sprintf("invalid binary op: %T %s %T", x, op, y))
}

// shift implements Go's << and >>: the count is unsigned (a negative signed
// count panics), counts >= width give 0 / sign fill.
func (i *interpreter) shift(op token.Token, k basicKind, x, y *Term) *Term {
	b := i.b
	// A signed count arrives with its own sort; SSA guarantees the check for
	// negative counts is ours to do. We cannot see y's static type here, so the
	// caller convention is: negative counts were rejected in visitInstr.
	w := x.sort
	var cnt *Term
	var big *Term // count >= width
	switch {
	case y.sort == w:
		cnt = y
		big = b.Not(b.Cmp(OULt, y, b.BV(w, uint64(w.Bits()))))
	case y.sort.Bits() < w.Bits():
		cnt = b.ZExt(y, w)
		big = b.Not(b.Cmp(OULt, cnt, b.BV(w, uint64(w.Bits()))))
	default:
		big = b.Not(b.Cmp(OULt, y, b.BV(y.sort, uint64(w.Bits()))))
		cnt = b.Trunc(y, w)
	}
	var r, over *Term
	switch {
	case op == token.SHL:
		r = b.Bin(OShl, x, cnt)
		over = b.BV(w, 0)
	case k.signed:
		r = b.Bin(OAShr, x, cnt)
		over = b.Bin(OAShr, x, b.BV(w, uint64(w.Bits()-1)))
	default:
		r = b.Bin(OLShr, x, cnt)
		over = b.BV(w, 0)
	}
	return b.Ite(big, over, r)
}

func (i *interpreter) unop(fr *frame, instr *ssa.UnOp, x value) value {
	b := i.b
	switch instr.Op {
	case token.ARROW:
		ch := x.(*schan)
		elem := instr.X.Type().Underlying().(*types.Chan).Elem()
		v, ok := i.chanRecv(ch, elem)
		if instr.CommaOk {
			return tuple{v, b.Bool(ok)}
		}
		return v
	case token.SUB:
		t := x.(*Term)
		if t.sort.IsFloat() {
			return b.FUn(OFNeg, t)
		}
		return b.Neg(t)
	case token.MUL:
		if r, ok := x.(*symRef); ok {
			return i.iteTable(r.a, r.idx)
		}
		return i.load(deref(instr.X.Type()), x.(*value))
	case token.NOT:
		return b.Not(x.(*Term))
	case token.XOR:
		return b.BNot(x.(*Term))
	}
	panic(fmt.Sprintf("invalid unary op %s %T", instr.Op, x))
}

func (i *interpreter) typeAssert(instr *ssa.TypeAssert, itf iface) value {
	var v value
	err := ""
	if itf.t == nil {
		err = fmt.Sprintf("interface conversion: interface is nil, not %s", instr.AssertedType)
	} else if idst, ok := instr.AssertedType.Underlying().(*types.Interface); ok {
		v = itf
		if meth, _ := types.MissingMethod(itf.t, idst, true); meth != nil {
			err = fmt.Sprintf("interface conversion: %v is not %v: missing method %s", itf.t, idst, meth.Name())
		}
	} else if types.Identical(itf.t, instr.AssertedType) {
		v = copyVal(itf.v)
	} else {
		err = fmt.Sprintf("interface conversion: interface is %s, not %s", itf.t, instr.AssertedType)
	}
	if err != "" {
		if !instr.CommaOk {
			rtPanic(err)
		}
		return tuple{i.zero(instr.AssertedType), i.b.False}
	}
	if instr.CommaOk {
		return tuple{v, i.b.True}
	}
	return v
}

func (i *interpreter) appendVals(s []value, more []value, elem types.Type) []value {
	n := len(s)
	if n+len(more) <= cap(s) {
		s = s[:n+len(more)]
		for k, v := range more {
			i.set(&s[n+k], copyVal(v))
		}
		return s
	}
	// grow: exact fit for tiny slices, doubling otherwise
	need := n + len(more)
	newCap := need
	if c := 2 * cap(s); c > newCap {
		newCap = c
	}
	if newCap < 4 {
		newCap = need
	}
	ns := make([]value, need, newCap)
	copy(ns, s)
	for k, v := range more {
		ns[n+k] = copyVal(v)
	}
	full := ns[:newCap]
	if _, scalar := scalarKind(elem); scalar || isString(elem) {
		z := i.zero(elem)
		for k := need; k < newCap; k++ {
			full[k] = z
		}
	} else {
		for k := need; k < newCap; k++ {
			full[k] = i.zero(elem)
		}
	}
	return ns
}

func (i *interpreter) callBuiltin(caller *frame, callpos token.Pos, fn *ssa.Builtin, args []value) value {
	b := i.b
	switch fn.Name() {
	case "append":
		if len(args) == 1 {
			return args[0]
		}
		s := args[0].([]value)
		elem := fn.Type().(*types.Signature).Params().At(0).Type().Underlying().(*types.Slice).Elem()
		switch a := args[1].(type) {
		case string, symstr:
			return i.appendVals(s, i.strToBytes(a), elem)
		case []value:
			if len(a) == 0 {
				return s
			}
			return i.appendVals(s, a, elem)
		}
		panic(fmt.Sprintf("append: %T", args[1]))

	case "copy":
		dst := args[0].([]value)
		var src []value
		switch a := args[1].(type) {
		case string, symstr:
			src = i.strToBytes(a)
		case []value:
			src = a
		}
		n := len(dst)
		if len(src) < n {
			n = len(src)
		}
		tmp := make([]value, n)
		for k := 0; k < n; k++ {
			tmp[k] = copyVal(src[k])
		}
		for k := 0; k < n; k++ {
			i.set(&dst[k], tmp[k])
		}
		return b.BV(SBV64, uint64(n))

	case "close":
		ch := args[0].(*schan)
		if ch == nil {
			rtPanic("close of nil channel")
		}
		if ch.closed {
			rtPanic("close of closed channel")
		}
		ch.closed = true
		i.logUndo(func() { ch.closed = false })
		return nil

	case "delete":
		i.mapDelete(args[0].(*smap), args[1])
		return nil

	case "clear":
		switch m := args[0].(type) {
		case *smap:
			if m != nil {
				for _, e := range m.entries {
					if !e.dead {
						i.mapDelete(m, e.key)
					}
				}
			}
		case []value:
			t := fn.Type().(*types.Signature).Params().At(0).Type().Underlying().(*types.Slice).Elem()
			for k := range m {
				i.set(&m[k], i.zero(t))
			}
		}
		return nil

	case "print", "println":
		return nil

	case "len":
		var n int
		switch x := args[0].(type) {
		case string, symstr:
			n = strLen(x)
		case array:
			n = len(x)
		case *value:
			if x == nil {
				// len(*[N]T)(nil) is N, statically; recover from the type
				pt := fn.Type().(*types.Signature).Params().At(0).Type()
				n = int(deref(pt).Underlying().(*types.Array).Len())
			} else {
				n = len((*x).(array))
			}
		case []value:
			n = len(x)
		case *smap:
			if x != nil {
				n = x.live
			}
		case *schan:
			if x != nil {
				n = len(x.q)
			}
		default:
			panic(fmt.Sprintf("len: illegal operand: %T", x))
		}
		return b.BV(SBV64, uint64(n))

	case "cap":
		var n int
		switch x := args[0].(type) {
		case array:
			n = len(x)
		case *value:
			n = len((*x).(array))
		case []value:
			n = cap(x)
		case *schan:
			if x != nil {
				n = x.cap
			}
		default:
			panic(fmt.Sprintf("cap: illegal operand: %T", x))
		}
		return b.BV(SBV64, uint64(n))

	case "min", "max":
		t := fn.Type().(*types.Signature).Params().At(0).Type()
		res := args[0]
		for _, a := range args[1:] {
			res = i.minmax(fn.Name() == "min", t, res, a)
		}
		return res

	case "panic":
		panic(targetPanic{args[0]})

	case "recover":
		return i.doRecover(caller)

	case "ssa:wrapnilchk":
		recv := args[0]
		if p, ok := recv.(*value); ok && p == nil {
			rtPanic(fmt.Sprintf("value method %v.%v called using nil pointer", args[1], args[2]))
		}
		return recv

	case "ssa:deferstack":
		return &caller.defers
	}
	panic("unknown built-in: " + fn.Name())
}

func (i *interpreter) minmax(isMin bool, t types.Type, x, y value) value {
	b := i.b
	if isString(t) {
		lt := i.strLess(x, y)
		if i.decide(lt) == isMin {
			return x
		}
		return y
	}
	xt, yt := x.(*Term), y.(*Term)
	k, _ := scalarKind(t)
	if k.sort.IsFloat() {
		// Go: NaN if either is NaN; -0 < +0 for min/max.
		nan := b.Or(b.FUn(OFIsNaN, xt), b.FUn(OFIsNaN, yt))
		var pick *Term
		if isMin {
			pick = b.FCmp(OFLt, xt, yt)
		} else {
			pick = b.FCmp(OFLt, yt, xt)
		}
		// equal (incl. ±0): choose by sign bit
		eq := b.FCmp(OFEq, xt, yt)
		xneg := b.FCmp(OFLt, b.FBin(OFDiv, b.fconst(k.sort, 1), xt), b.fconst(k.sort, 0))
		var onEq *Term
		if isMin {
			onEq = b.Ite(xneg, xt, yt)
		} else {
			onEq = b.Ite(xneg, yt, xt)
		}
		r := b.Ite(eq, onEq, b.Ite(pick, xt, yt))
		nanv := b.fconst(k.sort, nanF64())
		return b.Ite(nan, nanv, r)
	}
	lt := OULt
	if k.signed {
		lt = OSLt
	}
	var c *Term
	if isMin {
		c = b.Cmp(lt, xt, yt)
	} else {
		c = b.Cmp(lt, yt, xt)
	}
	return b.Ite(c, xt, yt)
}

func nanF64() float64 {
	var z float64
	return z / z
}

type stringIter struct {
	i   *interpreter
	fr  *frame
	s   value
	pos int
}

func (it *stringIter) next() tuple {
	i := it.i
	n := strLen(it.s)
	if it.pos >= n {
		return tuple{i.b.False, i.b.BV(SBV64, 0), i.b.BV(SBV32, 0)}
	}
	rest := i.strSlice(it.s, it.pos, n)
	var r *Term
	var size int
	if cs, ok := rest.(string); ok {
		rr, sz := utf8.DecodeRuneInString(cs)
		r, size = i.b.BV(SBV32, uint64(uint32(rr))), sz
	} else {
		// fast path: first byte < 0x80 decided symbolically
		res := i.callNamed(it.fr, "unicode/utf8", "DecodeRuneInString", []value{rest}).(tuple)
		r = res[0].(*Term)
		size = int(i.concInt(res[1], "rune size"))
	}
	idx := it.pos
	it.pos += size
	return tuple{i.b.True, i.b.BV(SBV64, uint64(idx)), r}
}

// callNamed calls a package-level function of the program by name.
func (i *interpreter) callNamed(fr *frame, pkg, name string, args []value) value {
	p := i.prog.ImportedPackage(pkg)
	if p == nil {
		i.unsupported("package %s not in program", pkg)
	}
	f := p.Func(name)
	if f == nil {
		i.unsupported("function %s.%s not in program", pkg, name)
	}
	return i.callSSA(fr, token.NoPos, f, args, nil)
}

func (i *interpreter) rangeIter(x value, t types.Type) iter {
	switch x := x.(type) {
	case *smap:
		it := &mapIter{i: i, m: x}
		if x != nil && i.ex != nil && i.ex.mapOrderNondet && x.live > 1 && x.live <= 4 {
			it.snap = i.permuteEntries(x)
		}
		return it
	case string, symstr:
		return &stringIter{i: i, fr: i.lastFrame, s: x}
	}
	panic(fmt.Sprintf("cannot range over %T", x))
}

// permuteEntries returns the live entries of m in an arbitrary order chosen
// by symbolic selection variables (forked).
func (i *interpreter) permuteEntries(m *smap) []*mapEntry {
	var live []*mapEntry
	for _, e := range m.entries {
		if !e.dead {
			live = append(live, e)
		}
	}
	var out []*mapEntry
	for len(live) > 1 {
		sel := i.ex.freshChoice(i, "maporder", len(live))
		out = append(out, live[sel])
		live = append(live[:sel:sel], live[sel+1:]...)
	}
	return append(out, live...)
}

// conv converts x from t_src to t_dst.
func (i *interpreter) conv(t_dst, t_src types.Type, x value) value {
	ut_src := t_src.Underlying()
	ut_dst := t_dst.Underlying()
	b := i.b

	// Destination type is not an "untyped" type.
	if bt, ok := ut_dst.(*types.Basic); ok && bt.Info()&types.IsUntyped != 0 {
		panic("oops: conversion to 'untyped' type: " + bt.String())
	}

	switch ut_src := ut_src.(type) {
	case *types.Signature:
		return x
	case *types.Pointer:
		switch ut_dst := ut_dst.(type) {
		case *types.Basic:
			if ut_dst.Kind() == types.UnsafePointer {
				return uptr{p: x}
			}
		case *types.Pointer:
			return x
		}
	case *types.Slice:
		switch ut_dst := ut_dst.(type) {
		case *types.Basic:
			// []byte or []rune -> string
			xs := x.([]value)
			switch ut_src.Elem().Underlying().(*types.Basic).Kind() {
			case types.Byte:
				return i.bytesToStr(xs)
			case types.Rune:
				var out []value
				for _, r := range xs {
					out = append(out, i.strToBytes(i.runeToStr(r.(*Term)))...)
				}
				return i.bytesToStr(out)
			}
		case *types.Slice:
			return x
		case *types.Array:
			xs := x.([]value)
			n := int(ut_dst.Len())
			if len(xs) < n {
				rtPanic("cannot convert slice to array: too short")
			}
			a := make(array, n)
			for k := range a {
				a[k] = copyVal(xs[k])
			}
			return a
		case *types.Pointer:
			xs := x.([]value)
			n := int(ut_dst.Elem().Underlying().(*types.Array).Len())
			if len(xs) < n {
				rtPanic("cannot convert slice to array pointer: too short")
			}
			var v value = array(xs[:n:n])
			return &v
		}
	case *types.Basic:
		if ut_src.Kind() == types.UnsafePointer {
			switch ut_dst := ut_dst.(type) {
			case *types.Pointer:
				p := x.(uptr).p
				if p == nil {
					return (*value)(nil)
				}
				pv, ok := p.(*value)
				if !ok {
					i.unsupported("unsafe.Pointer of %T converted to %v", p, ut_dst)
				}
				return pv
			case *types.Basic:
				if ut_dst.Kind() == types.UnsafePointer {
					return x
				}
				if ut_dst.Kind() == types.Uintptr {
					i.unsupported("unsafe.Pointer to uintptr")
				}
			}
		}
		if ut_src.Info()&types.IsString != 0 {
			switch ut_dst := ut_dst.(type) {
			case *types.Slice:
				switch ut_dst.Elem().Underlying().(*types.Basic).Kind() {
				case types.Rune:
					var res []value
					it := &stringIter{i: i, fr: i.lastFrame, s: x}
					for {
						t := it.next()
						if !t[0].(*Term).ConstBool() {
							break
						}
						res = append(res, t[2])
					}
					return res
				case types.Byte:
					return i.strToBytes(x)
				}
			case *types.Basic:
				if ut_dst.Info()&types.IsString != 0 {
					return x
				}
			}
			break
		}
		xt, isTerm := x.(*Term)
		if !isTerm {
			if _, ok := x.(complex128); ok {
				i.unsupported("complex conversion")
			}
			break
		}
		sk, _ := scalarKind(ut_src)
		if dstB, ok := ut_dst.(*types.Basic); ok && dstB.Info()&types.IsString != 0 {
			// integer -> string (a rune)
			var r *Term
			if sk.signed {
				r = b.Trunc(b.SExt(xt, SBV64), SBV32)
			} else {
				r = b.Trunc(b.ZExt(xt, SBV64), SBV32)
				if xt.sort.Bits() > 32 {
					r = b.Trunc(xt, SBV32)
				}
			}
			if xt.sort.Bits() > 32 {
				r = b.Trunc(xt, SBV32)
			}
			return i.runeToStr(r)
		}
		dk, ok := scalarKind(ut_dst)
		if !ok {
			if db, ok := ut_dst.(*types.Basic); ok && db.Kind() == types.UnsafePointer {
				i.unsupported("uintptr to unsafe.Pointer")
			}
			break
		}
		return i.convScalar(xt, sk, dk)
	}
	panic(fmt.Sprintf("unsupported conversion: %s  -> %s, dynamic type %T", t_src, t_dst, x))
}

func (i *interpreter) convScalar(x *Term, sk, dk basicKind) *Term {
	b := i.b
	switch {
	case sk.sort == SBool && dk.sort == SBool:
		return x
	case sk.sort.IsFloat() && dk.sort.IsFloat():
		return b.FToF(x, dk.sort)
	case sk.sort.IsFloat():
		return b.FToInt(x, dk.signed, dk.sort)
	case dk.sort.IsFloat():
		return b.IntToF(x, sk.signed, dk.sort)
	}
	sb, db := sk.sort.Bits(), dk.sort.Bits()
	switch {
	case sb == db:
		return x
	case sb > db:
		return b.Trunc(x, dk.sort)
	case sk.signed:
		return b.SExt(x, dk.sort)
	}
	return b.ZExt(x, dk.sort)
}

// runeToStr implements string(rune).
func (i *interpreter) runeToStr(r *Term) value {
	if r.op == OConst {
		return string(rune(int32(r.val)))
	}
	// symbolic rune: fork on the encoded length via the real utf8.AppendRune
	res := i.callNamed(i.lastFrame, "unicode/utf8", "AppendRune", []value{[]value(nil), r})
	return i.bytesToStr(res.([]value))
}

package sx

// driver.go: loads /repo with harness overlays, runs the jobs of a property
// spec, validates the translator against the native build, replays
// counterexamples natively and writes the evidence file.

import (
	"bytes"
	"context"
	"encoding/json"
	"fmt"
	"math/rand"
	"os"
	"os/exec"
	"path/filepath"
	"sort"
	"strings"
	"time"

	"golang.org/x/tools/go/packages"
	"golang.org/x/tools/go/ssa"
	"golang.org/x/tools/go/ssa/ssautil"
)

type PkgSpec struct {
	Dir   string   `json:"dir"`   // relative to the repo root
	Path  string   `json:"path"`  // import path
	Name  string   `json:"name"`  // package name
	Files []string `json:"files"` // harness files, relative to the spec's directory
}

type JobSpec struct {
	Harness  string             `json:"harness"`
	Pkg      string             `json:"pkg"`
	Params   map[string]ParamVals `json:"params"`
	Tier     string             `json:"tier"` // "quick" (also run in thorough) or "thorough"
	Hang     bool               `json:"hang_is_violation"`
	Sample   int                `json:"sample"` // >0: take a seed-chosen subset of the expanded parameter combinations (quick tier only)
	MaxPaths int                `json:"max_paths"`
	Stubs    map[string]string  `json:"stubs"` // per-job function replacements (target -> harness function)
}

type Spec struct {
	Property    string            `json:"property"`
	Packages    []PkgSpec         `json:"packages"`
	Stubs       map[string]string `json:"stubs"`
	Jobs        []JobSpec         `json:"jobs"`
	Reach       []string          `json:"reach"`
	Bounds      map[string]string `json:"bounds"` // tier -> text
	Assumptions []string          `json:"assumptions"`
	Outside     []string          `json:"outside_claim"`
	MaxSteps    int64             `json:"max_steps"`
	ProveMs     map[string]int    `json:"prove_timeout_ms"`
	FeasMs      int               `json:"feas_timeout_ms"`
	BudgetS     map[string]int    `json:"budget_s"`
	SamplesPerJob int             `json:"samples_per_job"`
	dir         string
}

type KnownFinding struct {
	Property string `json:"property"`
	Harness  string `json:"harness"`
	Label    string `json:"label"`
	Status   string `json:"status"` // open | fixed
	What     string `json:"what"`
	Commit   string `json:"commit,omitempty"`
}

type Options struct {
	Repo     string
	Verif    string
	Tier     string
	Seed     int64
	Workers  int
	Debug    bool
	OnlyJob  string // substring filter on job key
	NoReplay bool
	SolverLog string
}

func LoadSpec(path string) (*Spec, error) {
	data, err := os.ReadFile(path)
	if err != nil {
		return nil, err
	}
	var s Spec
	dec := json.NewDecoder(bytes.NewReader(data))
	dec.DisallowUnknownFields()
	if err := dec.Decode(&s); err != nil {
		return nil, fmt.Errorf("%s: %v", path, err)
	}
	s.dir = filepath.Dir(path)
	return &s, nil
}

func renderTmpl(verif, name, pkgName, table string) ([]byte, error) {
	data, err := os.ReadFile(filepath.Join(verif, "harness", "vnd", name))
	if err != nil {
		return nil, err
	}
	s := strings.Replace(string(data), "PKGNAME", pkgName, 1)
	s = strings.Replace(s, "HARNESSTABLE", table, 1)
	return []byte(s), nil
}

// overlayFiles returns virtual path -> real path/content for the harness
// packages. native selects the vnd implementation.
func (sp *Spec) overlayFiles(opt Options, native bool) (map[string][]byte, error) {
	ov := map[string][]byte{}
	for _, p := range sp.Packages {
		tmpl := "vnd_engine.go.tmpl"
		if native {
			tmpl = "vnd_native.go.tmpl"
		}
		vnd, err := renderTmpl(opt.Verif, tmpl, p.Name, "")
		if err != nil {
			return nil, err
		}
		ov[filepath.Join(opt.Repo, p.Dir, "zz_verif_vnd.go")] = vnd
		for _, f := range p.Files {
			data, err := os.ReadFile(filepath.Join(sp.dir, f))
			if err != nil {
				return nil, err
			}
			ov[filepath.Join(opt.Repo, p.Dir, "zz_verif_"+filepath.Base(f))] = data
		}
		if native {
			var tb strings.Builder
			seen := map[string]bool{}
			for _, j := range sp.Jobs {
				if j.Pkg == p.Path && !seen[j.Harness] {
					seen[j.Harness] = true
					fmt.Fprintf(&tb, "\t\t%q: %s,\n", j.Harness, j.Harness)
				}
			}
			rt, err := renderTmpl(opt.Verif, "replay_test.go.tmpl", p.Name, tb.String())
			if err != nil {
				return nil, err
			}
			ov[filepath.Join(opt.Repo, p.Dir, "zz_verif_replay_test.go")] = rt
		}
	}
	return ov, nil
}

func goEnv() []string {
	env := os.Environ()
	env = append(env, "GOFLAGS=-mod=mod", "GOPROXY=off", "GOSUMDB=off", "GOTOOLCHAIN=local", "CGO_ENABLED=0", "GOWORK=off")
	return env
}

// LoadProgram type-checks the harness packages of sp (with overlay) and
// builds SSA for their whole import closure.
func LoadProgram(sp *Spec, opt Options) (*ssa.Program, error) {
	ov, err := sp.overlayFiles(opt, false)
	if err != nil {
		return nil, err
	}
	var pats []string
	for _, p := range sp.Packages {
		pats = append(pats, "./"+p.Dir)
	}
	cfg := &packages.Config{
		Mode: packages.NeedName | packages.NeedFiles | packages.NeedCompiledGoFiles | packages.NeedImports |
			packages.NeedDeps | packages.NeedTypes | packages.NeedSyntax | packages.NeedTypesInfo |
			packages.NeedTypesSizes | packages.NeedModule,
		Dir:     opt.Repo,
		Env:     goEnv(),
		Overlay: ov,
	}
	initial, err := packages.Load(cfg, pats...)
	if err != nil {
		return nil, err
	}
	var errs []string
	packages.Visit(initial, nil, func(p *packages.Package) {
		for _, e := range p.Errors {
			errs = append(errs, e.Error())
		}
	})
	if len(errs) > 0 {
		if len(errs) > 10 {
			errs = errs[:10]
		}
		return nil, fmt.Errorf("load errors:\n  %s", strings.Join(errs, "\n  "))
	}
	prog, _ := ssautil.AllPackages(initial, ssa.InstantiateGenerics)
	prog.Build()
	return prog, nil
}

// ParamVals is a list of values, or {"range":[lo,hi]} (hi exclusive).
type ParamVals []int64

func (p *ParamVals) UnmarshalJSON(data []byte) error {
	var list []int64
	if err := json.Unmarshal(data, &list); err == nil {
		*p = list
		return nil
	}
	var r struct {
		Range []int64 `json:"range"`
	}
	if err := json.Unmarshal(data, &r); err != nil || len(r.Range) != 2 {
		return fmt.Errorf("bad parameter values %s", data)
	}
	for v := r.Range[0]; v < r.Range[1]; v++ {
		*p = append(*p, v)
	}
	return nil
}

func expandParams(p map[string]ParamVals) []map[string]int64 {
	keys := make([]string, 0, len(p))
	for k := range p {
		keys = append(keys, k)
	}
	sort.Strings(keys)
	out := []map[string]int64{{}}
	for _, k := range keys {
		var next []map[string]int64
		for _, m := range out {
			for _, v := range p[k] {
				n := map[string]int64{}
				for kk, vv := range m {
					n[kk] = vv
				}
				n[k] = v
				next = append(next, n)
			}
		}
		out = next
	}
	return out
}

type nativeCase struct {
	ID      string           `json:"id"`
	Harness string           `json:"harness"`
	Params  map[string]int64 `json:"params"`
	Inputs  []InputVal       `json:"inputs"`
	pkg     string
	stubs   map[string]string
}

type nativeResult struct {
	outcome string
	obs     []string
}

// runNative runs cases of one package through `go test -overlay`.
func runNative(sp *Spec, opt Options, pkgDir string, cases []nativeCase, timeout time.Duration, tag string) (map[string]nativeResult, string, error) {
	tmp, err := os.MkdirTemp("", "verif-native-")
	if err != nil {
		return nil, "", err
	}
	defer os.RemoveAll(tmp)
	ov, err := sp.overlayFiles(opt, true)
	if err != nil {
		return nil, "", err
	}
	repl := map[string]string{}
	n := 0
	for virt, data := range ov {
		n++
		real := filepath.Join(tmp, fmt.Sprintf("f%d_%s", n, filepath.Base(virt)))
		if err := os.WriteFile(real, data, 0o644); err != nil {
			return nil, "", err
		}
		repl[virt] = real
	}
	ovJSON, _ := json.Marshal(map[string]interface{}{"Replace": repl})
	ovPath := filepath.Join(tmp, "overlay.json")
	os.WriteFile(ovPath, ovJSON, 0o644)
	casePath := filepath.Join(tmp, "cases.json")
	cj, _ := json.Marshal(cases)
	os.WriteFile(casePath, cj, 0o644)

	ctx, cancel := context.WithTimeout(context.Background(), timeout)
	defer cancel()
	cmd := exec.CommandContext(ctx, "go", "test", "-v", "-vet=off", "-count=1", "-run", "^TestVerifReplay$", "-overlay", ovPath, "-timeout", fmt.Sprintf("%ds", int(timeout.Seconds())), "./"+pkgDir)
	cmd.Dir = opt.Repo
	cmd.Env = append(goEnv(), "VERIF_REPLAY="+casePath, "CGO_ENABLED=1")
	var out bytes.Buffer
	cmd.Stdout = &out
	cmd.Stderr = &out
	runErr := cmd.Run()
	text := out.String()
	res := map[string]nativeResult{}
	var cur string
	var obs []string
	for _, line := range strings.Split(text, "\n") {
		line = strings.TrimRight(line, "\r")
		switch {
		case strings.HasPrefix(line, "VND-CASE ") && strings.HasSuffix(line, " BEGIN"):
			cur = strings.TrimSuffix(strings.TrimPrefix(line, "VND-CASE "), " BEGIN")
			obs = nil
		case strings.HasPrefix(line, "VND-CASE ") && strings.Contains(line, " END "):
			rest := strings.TrimPrefix(line, "VND-CASE ")
			k := strings.Index(rest, " END ")
			id := rest[:k]
			res[id] = nativeResult{outcome: rest[k+5:], obs: obs}
			cur = ""
		case strings.HasPrefix(line, "VND-OBS ") && cur != "":
			obs = append(obs, strings.TrimPrefix(line, "VND-OBS "))
		}
	}
	if cur != "" {
		// the case that was running when the process died / timed out
		oc := "crash"
		if ctx.Err() != nil || strings.Contains(text, "test timed out") {
			oc = "timeout"
		}
		res[cur] = nativeResult{outcome: oc, obs: obs}
	}
	if runErr != nil && len(res) == 0 {
		return res, text, fmt.Errorf("native run failed: %v", runErr)
	}
	return res, text, nil
}

type JobReport struct {
	Job         string         `json:"job"`
	Paths       int            `json:"paths"`
	PathsOK     int            `json:"paths_completed"`
	Pruned      int            `json:"paths_pruned_by_assumption"`
	Panics      int            `json:"paths_ending_in_panic"`
	StepsOut    int            `json:"paths_out_of_steps"`
	Unsupported map[string]int `json:"paths_unsupported,omitempty"`
	Obligations int            `json:"obligations"`
	Discharged  int            `json:"discharged"`
	Trivial     int            `json:"discharged_by_constant_folding"`
	Inconcl     int            `json:"inconclusive"`
	Decisions   int64          `json:"decisions"`
	Truncated   bool           `json:"truncated,omitempty"`
	WallS       float64        `json:"wall_s"`
}

// Check runs one property check and returns the process exit code.
func Check(specPath string, opt Options) int {
	start := time.Now()
	sp, err := LoadSpec(specPath)
	if err != nil {
		fmt.Println("BROKEN: cannot load spec:", err)
		return 2
	}
	prop := sp.Property
	evPath := filepath.Join(opt.Verif, "evidence", prop+".json")
	os.MkdirAll(filepath.Dir(evPath), 0o755)
	os.Remove(evPath)

	known, _ := loadKnown(filepath.Join(opt.Verif, "known_findings.json"))

	tLoad := time.Now()
	prog, err := LoadProgram(sp, opt)
	if err != nil {
		fmt.Println("BROKEN: cannot load /repo with harness overlay:", err)
		return 2
	}
	loadS := time.Since(tLoad).Seconds()

	cfg := Config{
		Workers:        opt.Workers,
		FeasTimeoutMs:  2000,
		ProveTimeoutMs: 60000,
		MaxSteps:       20_000_000,
		MaxDepth:       2000,
		MaxViolPerKey:  3,
		Debug:          opt.Debug,
		SolverLog:      opt.SolverLog,
		CrossCheck:     opt.Tier == "thorough",
	}
	if sp.MaxSteps > 0 {
		cfg.MaxSteps = sp.MaxSteps
	}
	if v, ok := sp.ProveMs[opt.Tier]; ok {
		cfg.ProveTimeoutMs = v
	}
	if sp.FeasMs > 0 {
		cfg.FeasTimeoutMs = sp.FeasMs
	}
	if b, ok := sp.BudgetS[opt.Tier]; ok && b > 0 {
		cfg.Deadline = time.Now().Add(time.Duration(b) * time.Second)
	}
	run := NewRun(prog, "golang.org/x/perf", cfg)
	for k, v := range sp.Stubs {
		run.Stubs[k] = v
	}

	rng := rand.New(rand.NewSource(opt.Seed))
	var jobs []*Job
	for _, js := range sp.Jobs {
		if js.Tier == "thorough" && opt.Tier != "thorough" {
			continue
		}
		combos := expandParams(js.Params)
		if js.Sample > 0 && opt.Tier == "quick" && len(combos) > js.Sample {
			rng.Shuffle(len(combos), func(a, b int) { combos[a], combos[b] = combos[b], combos[a] })
			combos = combos[:js.Sample]
		}
		for _, pm := range combos {
			j := &Job{ID: len(jobs), Harness: js.Harness, Pkg: js.Pkg, Params: pm, HangIsViolation: js.Hang, Stubs: js.Stubs}
			if opt.OnlyJob != "" && !strings.Contains(j.Key(), opt.OnlyJob) {
				continue
			}
			jobs = append(jobs, j)
		}
		if js.MaxPaths > 0 {
			run.Cfg.MaxPathsPerJob = js.MaxPaths
		}
	}
	if len(jobs) == 0 {
		fmt.Println("BROKEN: no jobs selected")
		return 2
	}
	// big jobs first
	for k := len(jobs) - 1; k >= 0; k-- {
		run.AddJob(jobs[k])
	}
	tEx := time.Now()
	run.Explore()
	exploreS := time.Since(tEx).Seconds()

	// ---- aggregate
	var reports []JobReport
	tot := JobReport{Unsupported: map[string]int{}}
	var samples []interface{}
	exhaustive := true
	for _, j := range jobs {
		r := JobReport{Job: j.Key(), Paths: j.Paths, PathsOK: j.PathsOK, Pruned: j.Pruned, Panics: j.Panics, StepsOut: j.StepsOut,
			Unsupported: j.Unsupported, Obligations: j.Obligations, Discharged: j.Discharged, Trivial: j.Trivial, Inconcl: j.Inconcl,
			Decisions: j.Decisions, Truncated: j.Truncated, WallS: j.Wall.Seconds()}
		reports = append(reports, r)
		tot.Paths += r.Paths
		tot.PathsOK += r.PathsOK
		tot.Pruned += r.Pruned
		tot.Panics += r.Panics
		tot.StepsOut += r.StepsOut
		tot.Obligations += r.Obligations
		tot.Discharged += r.Discharged
		tot.Trivial += r.Trivial
		tot.Inconcl += r.Inconcl
		tot.Decisions += r.Decisions
		for k, v := range r.Unsupported {
			tot.Unsupported[k] += v
			exhaustive = false
		}
		if r.Truncated || r.Inconcl > 0 || r.StepsOut > 0 {
			exhaustive = false
		}
	}

	// ---- translator validation: witnesses of explored paths are run
	// natively and concretely in the engine; outcomes and observation traces
	// must agree.
	broken := []string{}
	validated := 0
	var natCases []nativeCase
	for _, j := range jobs {
		for k, s := range j.Samples {
			ins, _ := s["inputs"].([]InputVal)
			natCases = append(natCases, nativeCase{ID: fmt.Sprintf("val-%d-%d", j.ID, k), Harness: j.Harness, Params: j.Params, Inputs: ins, pkg: j.Pkg, stubs: j.Stubs})
			if len(samples) < 12 {
				samples = append(samples, map[string]interface{}{"job": j.Key(), "outcome": s["outcome"], "inputs": renderInputs(ins)})
			}
		}
	}
	// violations to replay
	type pend struct {
		v  *Violation
		id string
	}
	var pends []pend
	for k, v := range run.Violations {
		id := fmt.Sprintf("viol-%d", k)
		pends = append(pends, pend{v, id})
		if v.Kind != "hang" {
			natCases = append(natCases, nativeCase{ID: id, Harness: v.Job.Harness, Params: v.Job.Params, Inputs: v.Inputs, pkg: v.Job.Pkg})
		}
	}
	natRes := map[string]nativeResult{}
	nativeS := 0.0
	if !opt.NoReplay && len(natCases) > 0 {
		tN := time.Now()
		byPkg := map[string][]nativeCase{}
		for _, c := range natCases {
			byPkg[c.pkg] = append(byPkg[c.pkg], c)
		}
		for pkg, cs := range byPkg {
			dir := ""
			for _, p := range sp.Packages {
				if p.Path == pkg {
					dir = p.Dir
				}
			}
			// A crashing/hanging case ends the process: rerun the remainder.
			remaining := cs
			for len(remaining) > 0 {
				res, text, err := runNative(sp, opt, dir, remaining, 120*time.Second, "batch")
				if err != nil {
					broken = append(broken, fmt.Sprintf("native run for %s failed: %v\n%s", pkg, err, tail(text, 30)))
					break
				}
				progress := false
				var next []nativeCase
				for _, c := range remaining {
					if r, ok := res[c.ID]; ok {
						natRes[c.ID] = r
						progress = true
					} else {
						next = append(next, c)
					}
				}
				if !progress {
					broken = append(broken, fmt.Sprintf("native run for %s produced no results:\n%s", pkg, tail(text, 30)))
					break
				}
				remaining = next
			}
		}
		// hang candidates individually
		for _, p := range pends {
			if p.v.Kind != "hang" {
				continue
			}
			dir := ""
			for _, ps := range sp.Packages {
				if ps.Path == p.v.Job.Pkg {
					dir = ps.Dir
				}
			}
			res, _, _ := runNative(sp, opt, dir, []nativeCase{{ID: p.id, Harness: p.v.Job.Harness, Params: p.v.Job.Params, Inputs: p.v.Inputs}}, 40*time.Second, "hang")
			if r, ok := res[p.id]; ok {
				natRes[p.id] = r
			}
		}
		nativeS = time.Since(tN).Seconds()

		// engine concrete runs for the validation cases
		crun := NewRun(prog, "golang.org/x/perf", cfg)
		crun.Cfg.Workers = opt.Workers
		crun.Cfg.Deadline = time.Time{}
		for k, v := range sp.Stubs {
			crun.Stubs[k] = v
		}
		cjobs := map[string]*Job{}
		for _, c := range natCases {
			if !strings.HasPrefix(c.ID, "val-") {
				continue
			}
			ins := c.Inputs
			if ins == nil {
				ins = []InputVal{}
			}
			cj := &Job{Harness: c.Harness, Pkg: c.pkg, Params: c.Params, Concrete: ins, Stubs: c.stubs}
			cjobs[c.ID] = cj
			crun.AddJob(cj)
		}
		crun.Explore()
		for id, cj := range cjobs {
			nr, ok := natRes[id]
			if !ok {
				continue
			}
			engOutcome := "ok"
			switch {
			case cj.Panics > 0:
				engOutcome = "panic"
			case cj.Pruned > 0:
				engOutcome = "assumefalse"
			case len(cj.Unsupported) > 0:
				engOutcome = "unsupported"
			}
			for _, v := range crun.Violations {
				if v.Job == cj && v.Kind == "assert" {
					engOutcome = "assertfail:" + v.Label
				}
			}
			natOutcome := nr.outcome
			if strings.HasPrefix(natOutcome, "panic:") {
				natOutcome = "panic"
			}
			if engOutcome == "unsupported" {
				continue // concrete run hit an unsupported feature: not comparable
			}
			if engOutcome != natOutcome || strings.Join(cj.Trace, "\n") != strings.Join(nr.obs, "\n") {
				broken = append(broken, fmt.Sprintf("translator validation mismatch on %s inputs=%v:\n  engine: %s %v\n  native: %s %v",
					cj.Key(), renderInputs(cj.Concrete), engOutcome, cj.Trace, nr.outcome, nr.obs))
			} else {
				validated++
			}
		}
	}

	// ---- judge violations
	newViol, knownHit := 0, map[string]bool{}
	replayDir := filepath.Join(opt.Verif, "replays", prop)
	var violLines []string
	spurious := 0
	if !opt.NoReplay {
		os.RemoveAll(replayDir)
		for _, p := range pends {
			v := p.v
			r, ok := natRes[p.id]
			if !ok {
				broken = append(broken, "no native result for counterexample "+p.id+" ("+v.Job.Key()+" "+v.Label+")")
				continue
			}
			repro := false
			switch v.Kind {
			case "assert":
				repro = r.outcome == "assertfail:"+v.Label
			case "panic":
				repro = strings.HasPrefix(r.outcome, "panic:") || r.outcome == "crash"
			case "hang":
				repro = r.outcome == "timeout"
			}
			if !repro {
				spurious++
				broken = append(broken, fmt.Sprintf("SPURIOUS counterexample (does not reproduce natively): %s label=%s kind=%s native=%s inputs=%v",
					v.Job.Key(), v.Label, v.Kind, r.outcome, renderInputs(v.Inputs)))
				continue
			}
			validated++
			if kf := matchKnown(known, prop, v); kf != nil {
				knownHit[kf.Harness+"|"+kf.Label+"|"+kf.What] = true
				continue
			}
			os.MkdirAll(replayDir, 0o755)
			file := filepath.Join(replayDir, fmt.Sprintf("%s-%s.json", v.Job.Harness, sanitize(v.Label)))
			if _, err := os.Stat(file); err == nil {
				file = filepath.Join(replayDir, fmt.Sprintf("%s-%s-%s.json", v.Job.Harness, sanitize(v.Label), p.id))
			}
			rc := []map[string]interface{}{{"id": "replay", "harness": v.Job.Harness, "params": v.Job.Params, "inputs": v.Inputs,
				"pkg": v.Job.Pkg, "label": v.Label, "kind": v.Kind, "msg": v.Msg, "expected_native_outcome": r.outcome,
				"inputs_readable": renderInputs(v.Inputs)}}
			data, _ := json.MarshalIndent(rc, "", " ")
			os.WriteFile(file, data, 0o644)
			newViol++
			violLines = append(violLines, fmt.Sprintf("VIOLATION property=%s replay=%s", prop, file))
			fmt.Printf("  violated: %s label=%s kind=%s %s inputs=%v (at %s)\n", v.Job.Key(), v.Label, v.Kind, v.Msg, renderInputs(v.Inputs), v.Where)
		}
	} else {
		for _, v := range run.Violations {
			fmt.Printf("  candidate (not replayed): %s label=%s kind=%s %s inputs=%v (at %s)\n", v.Job.Key(), v.Label, v.Kind, v.Msg, renderInputs(v.Inputs), v.Where)
		}
	}

	// ---- reach markers (vacuity guard)
	reach := run.Reach()
	anyTruncated := false
	for _, j := range jobs {
		if j.Truncated {
			anyTruncated = true
		}
	}
	for _, l := range sp.Reach {
		if reach[l] == 0 && opt.OnlyJob == "" {
			if anyTruncated {
				// the time budget cut the exploration short: not evidence of a vacuous harness
				fmt.Println("  note: reach marker not hit before the time budget ran out:", l)
				continue
			}
			broken = append(broken, "reach marker never hit (vacuous harness?): "+l)
		}
	}
	for _, e := range run.EngineErrs {
		broken = append(broken, "engine: "+e)
	}

	// ---- evidence
	solver := map[string]interface{}{}
	solverS := 0.0
	for k, st := range run.Solver {
		solver[k] = map[string]interface{}{"queries": st.Queries, "sat": st.Sat, "unsat": st.Unsat, "unknown": st.Unknown, "errors": st.Errors, "time_s": st.Time.Seconds(), "restarts": st.Restarts}
		solverS += st.Time.Seconds()
	}
	if len(samples) == 0 {
		samples = append(samples, map[string]interface{}{"note": "no path witness was sampled"})
	}
	if len(reports) > 60 {
		reports = reports[:60]
	}
	funcs := run.Funcs()
	var repoFuncs []string
	for _, f := range funcs {
		if strings.Contains(f, "golang.org/x/perf") && !strings.Contains(f, "vnd") {
			repoFuncs = append(repoFuncs, f)
		}
	}
	states := tot.PathsOK + tot.Panics
	if states < 1 {
		states = 0
	}
	ev := map[string]interface{}{
		"property_id": prop,
		"tier":        opt.Tier,
		"seed":        opt.Seed,
		"level":       "model_checking",
		"coverage": map[string]interface{}{
			"states":                        states,
			"transitions":                   tot.Decisions,
			"traces_validated_against_impl": validated,
			"samples":                       samples,
			"obligations":                   tot.Obligations,
			"discharged":                    tot.Discharged,
			"discharged_by_constant_folding": tot.Trivial,
			"inconclusive":                  tot.Inconcl,
			"exhaustive":                    exhaustive && len(broken) == 0,
			"paths_total":                   tot.Paths,
			"paths_pruned_by_assumption":    tot.Pruned,
			"paths_unsupported":             tot.Unsupported,
			"paths_out_of_steps":            tot.StepsOut,
			"jobs":                          len(jobs),
			"job_reports":                   reports,
			"functions_encoded":             repoFuncs,
			"functions_encoded_total":       len(funcs),
			"bounds":                        sp.Bounds[opt.Tier],
			"outside_claim":                 sp.Outside,
			"stubs":                         run.StubsNoted(),
			"reach":                         reach,
			"solver":                        solver,
			"solver_time_s":                 solverS,
			"load_s":                        loadS,
			"explore_s":                     exploreS,
			"native_s":                      nativeS,
			"spurious_counterexamples":      spurious,
			"known_findings_reproduced":     len(knownHit),
			"violation_candidates":          run.ViolationCounts(),
			"inconclusive_assertions":       run.InconclLabels,
			"technique":                     "bounded symbolic execution of go/ssa (gosymex) with z3/cvc5; native replay of every counterexample",
		},
		"assumptions": sp.Assumptions,
		"wall_s":      time.Since(start).Seconds(),
		"violations":  newViol,
	}
	if states > 0 && tot.Decisions == 0 {
		ev["coverage"].(map[string]interface{})["transitions"] = 1
	}
	data, _ := json.MarshalIndent(ev, "", " ")
	if err := os.WriteFile(evPath, data, 0o644); err != nil {
		fmt.Println("BROKEN: cannot write evidence:", err)
		return 2
	}

	fmt.Printf("%s %s: jobs=%d paths=%d (completed %d, pruned %d, panics %d, unsupported %d, out-of-steps %d) obligations=%d discharged=%d inconclusive=%d validated=%d solver=%.1fs wall=%.1fs exhaustive=%v\n",
		prop, opt.Tier, len(jobs), tot.Paths, tot.PathsOK, tot.Pruned, tot.Panics, sumMap(tot.Unsupported), tot.StepsOut, tot.Obligations, tot.Discharged, tot.Inconcl, validated, solverS, time.Since(start).Seconds(), exhaustive && len(broken) == 0)
	if len(tot.Unsupported) > 0 {
		type kv struct {
			k string
			v int
		}
		var kvs []kv
		for k, v := range tot.Unsupported {
			kvs = append(kvs, kv{k, v})
		}
		sort.Slice(kvs, func(a, b int) bool { return kvs[a].v > kvs[b].v })
		for n, e := range kvs {
			if n >= 8 {
				break
			}
			fmt.Printf("  unsupported x%d: %s\n", e.v, e.k)
		}
	}
	for k, v := range run.InconclLabels {
		fmt.Printf("  inconclusive x%d: %s (solver gave no verdict within the time limit; not counted as discharged)\n", v, k)
	}
	var khs []string
	for k := range knownHit {
		khs = append(khs, k)
	}
	sort.Strings(khs)
	for _, k := range khs {
		parts := strings.SplitN(k, "|", 3)
		fmt.Printf("KNOWN-FINDING: property=%s %s (harness %s, assertion %s)\n", prop, parts[2], parts[0], parts[1])
	}
	for _, l := range violLines {
		fmt.Println(l)
	}
	for _, b := range broken {
		fmt.Println("BROKEN:", b)
	}
	if newViol > 0 {
		return 1
	}
	if len(broken) > 0 {
		return 2
	}
	return 0
}

func sumMap(m map[string]int) int {
	n := 0
	for _, v := range m {
		n += v
	}
	return n
}

func tail(s string, n int) string {
	lines := strings.Split(strings.TrimRight(s, "\n"), "\n")
	if len(lines) > n {
		lines = lines[len(lines)-n:]
	}
	return strings.Join(lines, "\n")
}

// renderInputs shows byte inputs grouped into strings for readability.
func renderInputs(ins []InputVal) []string {
	var out []string
	for k := 0; k < len(ins); {
		in := ins[k]
		if in.Kind == "byte" && strings.HasSuffix(in.Name, "[0]") {
			base := strings.TrimSuffix(in.Name, "[0]")
			var bs []byte
			j := k
			for j < len(ins) && ins[j].Kind == "byte" && ins[j].Name == fmt.Sprintf("%s[%d]", base, j-k) {
				bs = append(bs, byte(ins[j].Val))
				j++
			}
			out = append(out, fmt.Sprintf("%s=%q", base, string(bs)))
			k = j
			continue
		}
		switch in.Kind {
		case "byte":
			out = append(out, fmt.Sprintf("%s=%q", in.Name, string([]byte{byte(in.Val)})))
		case "f64":
			out = append(out, fmt.Sprintf("%s=float64frombits(%#x)", in.Name, in.Val))
		case "int", "i64":
			out = append(out, fmt.Sprintf("%s=%d", in.Name, int64(in.Val)))
		default:
			out = append(out, fmt.Sprintf("%s=%d", in.Name, in.Val))
		}
		k++
	}
	return out
}

func loadKnown(path string) ([]KnownFinding, error) {
	data, err := os.ReadFile(path)
	if err != nil {
		return nil, err
	}
	var k []KnownFinding
	if err := json.Unmarshal(data, &k); err != nil {
		return nil, err
	}
	return k, nil
}

func matchKnown(known []KnownFinding, prop string, v *Violation) *KnownFinding {
	for k := range known {
		kf := &known[k]
		if kf.Status == "open" && kf.Property == prop && kf.Harness == v.Job.Harness && kf.Label == v.Label {
			return kf
		}
	}
	return nil
}

// Replay re-runs a stored counterexample natively and reports the outcome.
func Replay(specPath, file string, opt Options) int {
	sp, err := LoadSpec(specPath)
	if err != nil {
		fmt.Println("cannot load spec:", err)
		return 2
	}
	data, err := os.ReadFile(file)
	if err != nil {
		fmt.Println(err)
		return 2
	}
	var cases []struct {
		nativeCase
		Pkg   string `json:"pkg"`
		Label string `json:"label"`
		Kind  string `json:"kind"`
	}
	if err := json.Unmarshal(data, &cases); err != nil {
		fmt.Println(err)
		return 2
	}
	rc := 0
	for _, c := range cases {
		dir := ""
		for _, p := range sp.Packages {
			if p.Path == c.Pkg {
				dir = p.Dir
			}
		}
		res, text, err := runNative(sp, opt, dir, []nativeCase{c.nativeCase}, 60*time.Second, "replay")
		if err != nil {
			fmt.Println(err)
			fmt.Println(tail(text, 40))
			return 2
		}
		r := res[c.ID]
		fmt.Printf("replay %s %s: native outcome %s (counterexample label %s)\n", c.Harness, renderInputs(c.Inputs), r.outcome, c.Label)
		for _, o := range r.obs {
			fmt.Println("  obs:", o)
		}
		if r.outcome != "ok" {
			rc = 1
		}
	}
	return rc
}

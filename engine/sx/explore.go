package sx

// explore.go: path exploration by re-execution of decision prefixes, the
// nondeterminism API (vnd*), assertion checking and result aggregation.

import (
	"fmt"
	"go/token"
	"go/types"
	"os"
	"runtime/debug"
	"sort"
	"strings"
	"sync"
	"time"

	"golang.org/x/tools/go/ssa"
)

type Config struct {
	Workers        int
	FeasTimeoutMs  int
	ProveTimeoutMs int
	MaxSteps       int64
	MaxDepth       int
	MaxPathsPerJob int
	MaxViolPerKey  int // replay candidates kept per (harness,label)
	Debug          bool
	SolverLog      string
	CrossCheck     bool // re-ask unsat assertion queries on a second solver
	Deadline       time.Time
}

type InputVal struct {
	Name string `json:"name"`
	Kind string `json:"kind"` // byte, bool, int, i64, u64, f64
	Val  uint64 `json:"val"`
}

type Job struct {
	ID       int
	Harness  string           // function name
	Pkg      string           // package path
	Params   map[string]int64 // vndParam values
	Concrete []InputVal       // non-nil: run concretely with these inputs (translator validation)
	Stubs    map[string]string // per-job function replacements
	HangIsViolation bool

	mu          sync.Mutex
	Paths       int
	PathsOK     int
	Pruned      int // ended by a false assumption
	Unsupported map[string]int
	StepsOut    int
	Panics      int
	Obligations int
	Discharged  int
	Trivial     int
	Inconcl     int
	Decisions   int64
	Truncated   bool
	Trace       []string // concrete mode: vndObserve trace
	Samples     []map[string]interface{}
	SolverTime  time.Duration
	Started     time.Time
	Wall        time.Duration
	inflight    int
}

func (j *Job) Key() string {
	var ks []string
	for k := range j.Params {
		ks = append(ks, k)
	}
	sort.Strings(ks)
	var sb strings.Builder
	sb.WriteString(j.Harness)
	for _, k := range ks {
		fmt.Fprintf(&sb, " %s=%d", k, j.Params[k])
	}
	return sb.String()
}

type Violation struct {
	Job      *Job
	Label    string
	Kind     string // assert, panic, hang
	Msg      string
	Inputs   []InputVal
	Where    string
	Replayed bool
	Repro    bool
	ReplayOut string
	ReplayFile string
}

type workItem struct {
	job    *Job
	prefix []decision
}

// Run is the shared coordinator.
type Run struct {
	Prog   *ssa.Program
	Module string // module path whose packages are always initialised
	Cfg    Config
	Stubs  map[string]string // target function -> "pkgpath.HarnessFunc"

	mu         sync.Mutex
	cond       *sync.Cond
	queue      []*workItem
	pending    int
	stubsNoted map[string]bool
	reach      map[string]int
	funcs      map[string]bool
	Violations []*Violation
	violCount  map[string]int
	Solver     map[string]*SolverStats
	EngineErrs []string
	InconclLabels map[string]int
	stop       bool
	active     map[int]string
	started    time.Time
}

// hardStop is the instant after which running paths are abandoned.
func (r *Run) hardStop() time.Time {
	if r.Cfg.Deadline.IsZero() {
		return time.Time{}
	}
	return r.Cfg.Deadline.Add(20 * time.Second)
}

// tmo clips a solver timeout to the time left before the hard stop.
func (r *Run) tmo(ms int) int {
	hs := r.hardStop()
	if hs.IsZero() {
		return ms
	}
	left := int(time.Until(hs) / time.Millisecond)
	if left < 200 {
		left = 200
	}
	if left < ms {
		return left
	}
	return ms
}

func (r *Run) pastHardStop() bool {
	hs := r.hardStop()
	return !hs.IsZero() && time.Now().After(hs)
}

func NewRun(prog *ssa.Program, module string, cfg Config) *Run {
	r := &Run{Prog: prog, Module: module, Cfg: cfg, Stubs: map[string]string{},
		stubsNoted: map[string]bool{}, reach: map[string]int{}, funcs: map[string]bool{},
		violCount: map[string]int{}, Solver: map[string]*SolverStats{}}
	r.cond = sync.NewCond(&r.mu)
	r.active = map[int]string{}
	r.InconclLabels = map[string]int{}
	return r
}

func (r *Run) initPackage(path string) bool {
	if path == r.Module || strings.HasPrefix(path, r.Module+"/") {
		return true
	}
	if v, ok := initAllow[path]; ok {
		return v
	}
	// third-party dependencies (first path element has a dot) are initialised
	// like the module itself unless they belong to the outside-the-model set
	if k := strings.Index(path, "/"); k > 0 && strings.Contains(path[:k], ".") {
		for _, pre := range []string{"github.com/aclements/go-moremath"} {
			if strings.HasPrefix(path, pre) {
				return true
			}
		}
	}
	return false
}

func (r *Run) noteStub(s string) {
	r.mu.Lock()
	r.stubsNoted[s] = true
	r.mu.Unlock()
}

func (r *Run) StubsNoted() []string {
	r.mu.Lock()
	defer r.mu.Unlock()
	var out []string
	for s := range r.stubsNoted {
		out = append(out, s)
	}
	sort.Strings(out)
	return out
}

func (r *Run) Reach() map[string]int {
	r.mu.Lock()
	defer r.mu.Unlock()
	out := map[string]int{}
	for k, v := range r.reach {
		out[k] = v
	}
	return out
}

func (r *Run) Funcs() []string {
	r.mu.Lock()
	defer r.mu.Unlock()
	var out []string
	for s := range r.funcs {
		out = append(out, s)
	}
	sort.Strings(out)
	return out
}

func (r *Run) stubFor(name string) intrinsicFn {
	target, ok := r.Stubs[name]
	if !ok {
		return nil
	}
	return r.stubTarget(name, target)
}

func (r *Run) stubTarget(name, target string) intrinsicFn {
	k := strings.LastIndex(target, ".")
	pkg := r.Prog.ImportedPackage(target[:k])
	if pkg == nil {
		return nil
	}
	f := pkg.Func(target[k+1:])
	if f == nil {
		return nil
	}
	r.noteStub("stub: " + name + " replaced by " + target)
	return func(fr *frame, args []value) value {
		return fr.i.callSSA(fr, token.NoPos, f, args, nil)
	}
}

// Explorer is the per-worker context: one interpreter, its solvers and the
// state of the path being executed.
type Explorer struct {
	run   *Run
	i     *interpreter
	z3    *Solver
	cvc5  *Solver
	z3b   *Solver // cross-check solver (z3-new)

	job       *Job
	inputs    []inputRec
	auxN      int
	opaqueFmt int
	mapOrderNondet bool
	files          *smap // vndFile registry of the current path
	hashUF         bool  // maphash as an uninterpreted function (collisions explored)

	model      Model // a model of pc[:modelLen]
	modelLen   int
	haveModel  bool
}

type inputRec struct {
	name string
	kind string
	v    *Term // the BV/Bool variable (nil in concrete mode)
}

func (ex *Explorer) solverFor(pc []*Term, extra *Term) *Solver {
	fp := extra != nil && extra.fp
	if !fp {
		for _, c := range pc {
			if c.fp {
				fp = true
				break
			}
		}
	}
	if fp {
		if ex.cvc5 == nil {
			s, err := NewSolver("cvc5")
			if err != nil {
				panic(engineError{"cannot start cvc5: " + err.Error()})
			}
			ex.cvc5 = s
		}
		return ex.cvc5
	}
	if ex.z3 == nil {
		s, err := NewSolver(bvSolver())
		if err != nil {
			panic(engineError{"cannot start " + bvSolver() + ": " + err.Error()})
		}
		if ex.run.Cfg.SolverLog != "" {
			f, _ := os.Create(ex.run.Cfg.SolverLog)
			s.Log = f
		}
		ex.z3 = s
	}
	return ex.z3
}

func (ex *Explorer) inputVars() []*Term {
	var vs []*Term
	for _, in := range ex.inputs {
		if in.v != nil {
			vs = append(vs, in.v)
		}
	}
	return vs
}

// modelOK reports whether the cached model still satisfies the whole path
// condition, extending modelLen when it does.
func (ex *Explorer) modelOK(i *interpreter) bool {
	if !ex.haveModel || ex.modelLen > len(i.pc) {
		return false
	}
	for k := ex.modelLen; k < len(i.pc); k++ {
		r, ok := i.b.Eval(i.pc[k], ex.model)
		if !ok || r.val == 0 {
			ex.haveModel = false
			return false
		}
	}
	ex.modelLen = len(i.pc)
	return true
}

func (ex *Explorer) setModel(i *interpreter, m Model, extraHolds bool) {
	if m == nil {
		return
	}
	ex.model, ex.haveModel, ex.modelLen = m, true, len(i.pc)
}

// feasible2 decides which directions of c are feasible under the current
// path condition. "unknown" keeps a direction alive.
func (ex *Explorer) feasible2(i *interpreter, c *Term) (canT, canF bool) {
	tmo := ex.run.tmo(ex.run.Cfg.FeasTimeoutMs)
	if ex.run.pastHardStop() {
		panic(pathAbort{"deadline", "time budget exhausted"})
	}
	vars := ex.inputVars()
	known := 0 // 1: true side known feasible, 2: false side
	if ex.modelOK(i) {
		if r, ok := i.b.Eval(c, ex.model); ok {
			if r.val != 0 {
				known = 1
			} else {
				known = 2
			}
		}
	}
	s := ex.solverFor(i.pc, c)
	check := func(t *Term) bool {
		res, m := s.Check(i.pc, t, tmo, vars)
		ex.job.addSolverTime(0)
		if res == Sat && m != nil {
			// model satisfies pc ∧ t; it stays valid for pc
			ex.model, ex.haveModel, ex.modelLen = m, true, len(i.pc)
		}
		return res != Unsat
	}
	nc := i.b.Not(c)
	switch known {
	case 1:
		return true, check(nc)
	case 2:
		return check(c), true
	}
	canT = check(c)
	canF = check(nc)
	return
}

// modelValue returns a value of t consistent with the path condition.
func (ex *Explorer) modelValue(i *interpreter, t *Term) (uint64, Result) {
	if ex.modelOK(i) {
		if r, ok := i.b.Eval(t, ex.model); ok {
			return r.val, Sat
		}
	}
	// bind t to an auxiliary variable to read its value
	ex.auxN++
	aux := i.b.Var(fmt.Sprintf("aux_mv%d", ex.auxN), t.sort)
	vars := append(ex.inputVars(), aux)
	res := Unknown
	// "unknown" (a time-out under load, a solver error followed by a restart) is retried
	// once with a longer limit; it is never taken for "no value exists"
	for try, limit := 0, ex.run.Cfg.FeasTimeoutMs*5; try < 2 && res == Unknown; try, limit = try+1, limit*4 {
		s := ex.solverFor(i.pc, t)
		r, m := s.Check(i.pc, i.b.Eq(aux, t), limit, vars)
		if r == Sat && m != nil {
			ex.model, ex.haveModel, ex.modelLen = m, true, len(i.pc)
			return m[aux.name], Sat
		}
		if r == Unsat {
			res = Unsat
		}
	}
	return 0, res
}

func (ex *Explorer) freshChoice(i *interpreter, name string, n int) int {
	t := ex.newInput(i, name, "int", SBV64)
	i.assume(i.b.Cmp(OULt, t, i.b.BV(SBV64, uint64(n))))
	return int(i.concretize(t, name))
}

// newInput creates the next symbolic input (or pops a concrete one).
func (ex *Explorer) newInput(i *interpreter, name, kind string, s Sort) *Term {
	idx := len(ex.inputs)
	if ex.job.Concrete != nil {
		var v uint64
		if idx < len(ex.job.Concrete) {
			v = ex.job.Concrete[idx].Val
		}
		ex.inputs = append(ex.inputs, inputRec{name: name, kind: kind})
		if s == SBool {
			return i.b.Bool(v != 0)
		}
		return i.b.BV(s, v)
	}
	// the sort is part of the name: jobs of one run share solver processes, and two inputs
	// with the same index and name but different kinds must not collide there
	vn := fmt.Sprintf("in%d_%s_%s", idx, sanitize(name), sanitize(kind))
	t := i.b.Var(vn, s)
	ex.inputs = append(ex.inputs, inputRec{name: name, kind: kind, v: t})
	return t
}

func sanitize(s string) string {
	var sb strings.Builder
	for _, c := range s {
		if c >= 'a' && c <= 'z' || c >= 'A' && c <= 'Z' || c >= '0' && c <= '9' || c == '_' {
			sb.WriteRune(c)
		} else {
			sb.WriteByte('_')
		}
	}
	return sb.String()
}

func (j *Job) addSolverTime(d time.Duration) {}

// inputsFromModel lists the path's inputs with their model values.
func (ex *Explorer) inputsFromModel(m Model) []InputVal {
	var out []InputVal
	for _, in := range ex.inputs {
		iv := InputVal{Name: in.name, Kind: in.kind}
		if in.v != nil {
			iv.Val = m[in.v.name]
		}
		out = append(out, iv)
	}
	return out
}

// ---------------------------------------------------------------- assertions

func (ex *Explorer) assertCond(i *interpreter, c *Term, label string, where string) {
	if len(i.decisions) < len(i.prefix) {
		// Replaying a prefix: this assertion was already decided, under the
		// same path condition, by the path that spawned this one.
		i.assume(c)
		return
	}
	j := ex.job
	j.mu.Lock()
	j.Obligations++
	j.mu.Unlock()
	if c.op == OConst && c.val != 0 {
		j.mu.Lock()
		j.Discharged++
		j.Trivial++
		j.mu.Unlock()
		return
	}
	nc := i.b.Not(c)
	s := ex.solverFor(i.pc, nc)
	res, m := s.Check(i.pc, nc, ex.run.tmo(ex.run.Cfg.ProveTimeoutMs), ex.inputVars())
	if res == Unsat && ex.run.Cfg.CrossCheck && !nc.fp {
		if ex.z3b == nil {
			ex.z3b, _ = NewSolver(bvCrossSolver())
		}
		if ex.z3b != nil {
			r2, _ := ex.z3b.Check(i.pc, nc, ex.run.Cfg.ProveTimeoutMs, nil)
			if r2 == Sat {
				ex.run.engineErr(fmt.Sprintf("solver disagreement on %s/%s: primary unsat, cross-check sat", j.Key(), label))
				res = Unknown
			}
		}
	}
	if res == Unknown && !nc.fp && !pcUsesFP(i.pc) {
		// second opinion from the other z3 release before giving up
		if ex.z3b == nil {
			ex.z3b, _ = NewSolver(bvCrossSolver())
		}
		if ex.z3b != nil {
			res, m = ex.z3b.Check(i.pc, nc, ex.run.tmo(ex.run.Cfg.ProveTimeoutMs), ex.inputVars())
		}
	}
	switch res {
	case Unsat:
		j.mu.Lock()
		j.Discharged++
		j.mu.Unlock()
	case Sat:
		ex.run.addViolation(&Violation{Job: j, Label: label, Kind: "assert", Inputs: ex.inputsFromModel(m), Where: where})
		j.mu.Lock()
		j.Discharged += 0
		j.mu.Unlock()
	default:
		j.mu.Lock()
		j.Inconcl++
		j.mu.Unlock()
		ex.run.mu.Lock()
		ex.run.InconclLabels[j.Harness+"|"+label]++
		ex.run.mu.Unlock()
		if ex.run.Cfg.Debug {
			fmt.Fprintf(os.Stderr, "INCONCLUSIVE %s label=%s at %s\n", j.Key(), label, where)
		}
	}
	// continue the path under the assertion
	if c.op == OConst {
		panic(pathAbort{"done", "assertion is constantly false"})
	}
	i.assume(c)
	ex.haveModel = false
}

func (r *Run) engineErr(s string) {
	r.mu.Lock()
	r.EngineErrs = append(r.EngineErrs, s)
	r.mu.Unlock()
}

func (r *Run) addViolation(v *Violation) {
	r.mu.Lock()
	defer r.mu.Unlock()
	key := v.Job.Harness + "|" + v.Label
	r.violCount[key]++
	if r.violCount[key] <= r.Cfg.MaxViolPerKey {
		r.Violations = append(r.Violations, v)
	}
}

func (r *Run) ViolationCounts() map[string]int {
	r.mu.Lock()
	defer r.mu.Unlock()
	out := map[string]int{}
	for k, v := range r.violCount {
		out[k] = v
	}
	return out
}

// ---------------------------------------------------------------- vnd intrinsics

var vndIntrinsics = map[string]intrinsicFn{}

func argStr(fr *frame, v value) string {
	s, ok := concreteStr(v)
	if !ok {
		fr.i.unsupported("vnd label/name must be a concrete string")
	}
	return s
}

func init() {
	vndIntrinsics["vndNative"] = func(fr *frame, args []value) value { return fr.i.b.False }
	vndIntrinsics["vndParam"] = func(fr *frame, args []value) value {
		name := argStr(fr, args[0])
		v, ok := fr.i.ex.job.Params[name]
		if !ok {
			panic(engineError{"harness " + fr.i.ex.job.Harness + " asks for undefined parameter " + name})
		}
		return fr.i.b.BV(SBV64, uint64(v))
	}
	vndIntrinsics["vndByte"] = func(fr *frame, args []value) value {
		return fr.i.ex.newInput(fr.i, argStr(fr, args[0]), "byte", SBV8)
	}
	vndIntrinsics["vndBool"] = func(fr *frame, args []value) value {
		return fr.i.ex.newInput(fr.i, argStr(fr, args[0]), "bool", SBool)
	}
	vndIntrinsics["vndInt"] = func(fr *frame, args []value) value {
		i := fr.i
		t := i.ex.newInput(i, argStr(fr, args[0]), "int", SBV64)
		lo, hi := args[1].(*Term), args[2].(*Term)
		i.assume(i.b.And(i.b.Cmp(OSLe, lo, t), i.b.Cmp(OSLe, t, hi)))
		return t
	}
	vndIntrinsics["vndChoice"] = func(fr *frame, args []value) value {
		i := fr.i
		n := int(i.concInt(args[1], "vndChoice n"))
		return i.b.BV(SBV64, uint64(i.ex.freshChoice(i, argStr(fr, args[0]), n)))
	}
	vndIntrinsics["vndInt64"] = func(fr *frame, args []value) value {
		return fr.i.ex.newInput(fr.i, argStr(fr, args[0]), "i64", SBV64)
	}
	vndIntrinsics["vndUint64"] = func(fr *frame, args []value) value {
		return fr.i.ex.newInput(fr.i, argStr(fr, args[0]), "u64", SBV64)
	}
	vndIntrinsics["vndFloat64"] = func(fr *frame, args []value) value {
		return fr.i.b.FFromBits(fr.i.ex.newInput(fr.i, argStr(fr, args[0]), "f64", SBV64))
	}
	vndIntrinsics["vndBytes"] = func(fr *frame, args []value) value {
		i := fr.i
		name := argStr(fr, args[0])
		n := int(i.concInt(args[1], "vndBytes n"))
		out := make([]value, n)
		for k := range out {
			out[k] = i.ex.newInput(i, fmt.Sprintf("%s[%d]", name, k), "byte", SBV8)
		}
		return out
	}
	vndIntrinsics["vndString"] = func(fr *frame, args []value) value {
		i := fr.i
		name := argStr(fr, args[0])
		n := int(i.concInt(args[1], "vndString n"))
		out := make(symstr, n)
		for k := range out {
			out[k] = i.ex.newInput(i, fmt.Sprintf("%s[%d]", name, k), "byte", SBV8)
		}
		return normStr(out)
	}
	vndIntrinsics["vndAssume"] = func(fr *frame, args []value) value {
		i := fr.i
		c := args[0].(*Term)
		if c.op == OConst {
			if c.val == 0 {
				panic(pathAbort{"assume", "assumption is false"})
			}
			return nil
		}
		if len(i.decisions) >= len(i.prefix) {
			// eager feasibility check: prune the path when the assumption
			// contradicts the path condition
			s := i.ex.solverFor(i.pc, c)
			res, m := s.Check(i.pc, c, i.ex.run.Cfg.FeasTimeoutMs, i.ex.inputVars())
			if res == Unsat {
				panic(pathAbort{"assume", "assumption contradicts path condition"})
			}
			i.assume(c)
			if res == Sat && m != nil {
				i.ex.model, i.ex.haveModel, i.ex.modelLen = m, true, len(i.pc)
			} else {
				i.ex.haveModel = false
			}
			return nil
		}
		i.assume(c)
		return nil
	}
	vndIntrinsics["vndAssert"] = func(fr *frame, args []value) value {
		i := fr.i
		where := "?"
		if fr.caller != nil {
			where = i.where(fr.caller)
		}
		i.ex.assertCond(i, args[0].(*Term), argStr(fr, args[1]), where)
		return nil
	}
	vndIntrinsics["vndAnd"] = func(fr *frame, args []value) value {
		return fr.i.b.And(args[0].(*Term), args[1].(*Term))
	}
	vndIntrinsics["vndOr"] = func(fr *frame, args []value) value {
		return fr.i.b.Or(args[0].(*Term), args[1].(*Term))
	}
	vndIntrinsics["vndIteInt"] = func(fr *frame, args []value) value {
		return fr.i.b.Ite(args[0].(*Term), args[1].(*Term), args[2].(*Term))
	}
	vndIntrinsics["vndIteU64"] = vndIntrinsics["vndIteInt"]
	vndIntrinsics["vndIteF64"] = vndIntrinsics["vndIteInt"]
	vndIntrinsics["vndHashUninterpreted"] = func(fr *frame, args []value) value {
		fr.i.ex.hashUF = args[0].(*Term).ConstBool()
		return nil
	}
	vndIntrinsics["vndFile"] = func(fr *frame, args []value) value {
		i := fr.i
		if i.ex.files == nil {
			i.ex.files = i.makeMap(types.Typ[types.String])
		}
		i.mapInsert(i.ex.files, args[0], append([]value(nil), args[1].([]value)...))
		return nil
	}
	vndIntrinsics["vndReach"] = func(fr *frame, args []value) value {
		r := fr.i.ex.run
		l := argStr(fr, args[0])
		r.mu.Lock()
		r.reach[l]++
		r.mu.Unlock()
		return nil
	}
	vndIntrinsics["vndConcretize"] = func(fr *frame, args []value) value {
		i := fr.i
		t := args[0].(*Term)
		return i.b.BV(t.sort, i.concretize(t, "vndConcretize"))
	}
	vndIntrinsics["vndConcretizeByte"] = vndIntrinsics["vndConcretize"]
	vndIntrinsics["vndGOMAXPROCS"] = func(fr *frame, args []value) value {
		fr.i.gomaxprocs = int(fr.i.concInt(args[0], "vndGOMAXPROCS"))
		return nil
	}
	vndIntrinsics["vndMapOrderNondet"] = func(fr *frame, args []value) value {
		fr.i.ex.mapOrderNondet = args[0].(*Term).ConstBool()
		return nil
	}
	obs := func(kind string) intrinsicFn {
		return func(fr *frame, args []value) value {
			ex := fr.i.ex
			if ex.job.Concrete == nil {
				return nil
			}
			label := argStr(fr, args[0])
			var s string
			switch v := args[1].(type) {
			case *Term:
				if v.op != OConst {
					s = "SYMBOLIC"
				} else {
					switch kind {
					case "int":
						s = fmt.Sprint(v.ConstS64())
					case "bool":
						s = fmt.Sprint(v.val != 0)
					case "f64":
						s = fmt.Sprintf("%016x", v.val)
						if f := v.ConstF64(); f != f {
							s = "NaN"
						}
					}
				}
			case string:
				s = fmt.Sprintf("%q", v)
			case symstr:
				s = "SYMBOLIC"
			case []value:
				cs, ok := concreteStr(fr.i.bytesToStr(v))
				if ok {
					s = fmt.Sprintf("%q", cs)
				} else {
					s = "SYMBOLIC"
				}
			}
			ex.job.Trace = append(ex.job.Trace, label+"="+s)
			return nil
		}
	}
	vndIntrinsics["vndObserveInt"] = obs("int")
	vndIntrinsics["vndObserveBool"] = obs("bool")
	vndIntrinsics["vndObserveStr"] = obs("str")
	vndIntrinsics["vndObserveBytes"] = obs("bytes")
	vndIntrinsics["vndObserveF64"] = obs("f64")
}

// ---------------------------------------------------------------- workers

func (r *Run) AddJob(j *Job) {
	r.mu.Lock()
	j.Unsupported = map[string]int{}
	r.queue = append(r.queue, &workItem{job: j})
	r.pending++
	r.mu.Unlock()
	r.cond.Broadcast()
}

func (r *Run) take() *workItem {
	r.mu.Lock()
	defer r.mu.Unlock()
	for {
		if r.stop {
			return nil
		}
		if n := len(r.queue); n > 0 {
			it := r.queue[n-1]
			r.queue = r.queue[:n-1]
			return it
		}
		if r.pending == 0 {
			return nil
		}
		r.cond.Wait()
	}
}

func (r *Run) finish(it *workItem, forks [][]decision) {
	r.mu.Lock()
	j := it.job
	for _, f := range forks {
		if r.Cfg.MaxPathsPerJob > 0 && j.Paths+j.inflight >= r.Cfg.MaxPathsPerJob {
			j.Truncated = true
			break
		}
		r.queue = append(r.queue, &workItem{job: j, prefix: f})
		r.pending++
		j.inflight++
	}
	r.pending--
	if it.prefix != nil {
		j.inflight--
	}
	if !r.Cfg.Deadline.IsZero() && time.Now().After(r.Cfg.Deadline) {
		// drop the remaining work; jobs with queued items are truncated
		for _, q := range r.queue {
			q.job.Truncated = true
		}
		r.pending -= len(r.queue)
		r.queue = nil
	}
	r.mu.Unlock()
	r.cond.Broadcast()
}

// Explore runs all queued jobs to completion on cfg.Workers workers.
func (r *Run) Explore() {
	var wg sync.WaitGroup
	n := r.Cfg.Workers
	if n < 1 {
		n = 1
	}
	r.started = time.Now()
	done := make(chan struct{})
	if os.Getenv("VERIF_PROGRESS") != "" || r.Cfg.Debug {
		go func() {
			t := time.NewTicker(20 * time.Second)
			defer t.Stop()
			for {
				select {
				case <-done:
					return
				case <-t.C:
					r.mu.Lock()
					var act []string
					for _, a := range r.active {
						act = append(act, a)
					}
					sort.Strings(act)
					fmt.Fprintf(os.Stderr, "[%4.0fs] queue=%d pending=%d active=%v\n", time.Since(r.started).Seconds(), len(r.queue), r.pending, act)
					r.mu.Unlock()
				}
			}
		}()
	}
	defer close(done)
	for w := 0; w < n; w++ {
		wg.Add(1)
		go func(w int) {
			defer wg.Done()
			ex, err := r.newExplorer()
			if err != nil {
				r.engineErr("worker init: " + err.Error())
				// drain
				for {
					it := r.take()
					if it == nil {
						return
					}
					it.job.mu.Lock()
					it.job.Unsupported["worker init failed"]++
					it.job.mu.Unlock()
					r.finish(it, nil)
				}
			}
			defer ex.close()
			for {
				it := r.take()
				if it == nil {
					return
				}
				r.mu.Lock()
				r.active[w] = it.job.Key()
				r.mu.Unlock()
				forks := ex.runPath(it)
				r.mu.Lock()
				delete(r.active, w)
				r.mu.Unlock()
				r.finish(it, forks)
			}
		}(w)
	}
	wg.Wait()
}

func (ex *Explorer) close() {
	for _, s := range []*Solver{ex.z3, ex.cvc5, ex.z3b} {
		if s != nil {
			ex.run.mu.Lock()
			st := ex.run.Solver[s.Kind]
			if st == nil {
				st = &SolverStats{}
				ex.run.Solver[s.Kind] = st
			}
			st.Queries += s.Stats.Queries
			st.Sat += s.Stats.Sat
			st.Unsat += s.Stats.Unsat
			st.Unknown += s.Stats.Unknown
			st.Errors += s.Stats.Errors
			st.Time += s.Stats.Time
			st.Restarts += s.Stats.Restarts
			ex.run.mu.Unlock()
			s.Close()
		}
	}
}

func (r *Run) newExplorer() (ex *Explorer, err error) {
	ex = &Explorer{run: r}
	i := &interpreter{
		prog:           r.Prog,
		b:              NewBuilder(),
		globals:        map[*ssa.Global]*value{},
		intrinsicCache: map[*ssa.Function]intrinsicFn{},
		fnNames:        map[*ssa.Function]string{},
		maxSteps:       1 << 40,
		maxDepth:       r.Cfg.MaxDepth,
		ex:             ex,
		funcsSeen:      map[*ssa.Function]bool{},
		sideState:      map[*value]interface{}{},
	}
	ex.i = i
	if rt := r.Prog.ImportedPackage("runtime"); rt != nil {
		if t := rt.Type("errorString"); t != nil {
			i.runtimeErrorType = t.Type()
		}
	}
	for _, pkg := range r.Prog.AllPackages() {
		for _, m := range pkg.Members {
			if g, ok := m.(*ssa.Global); ok {
				cell := i.zero(deref(g.Type()))
				i.globals[g] = &cell
			}
		}
	}
	// Run package initialisers (allow-listed std packages and the module).
	ex.job = &Job{Harness: "<init>", Params: map[string]int64{}, Unsupported: map[string]int{}, Concrete: []InputVal{}}
	defer func() {
		if rec := recover(); rec != nil {
			err = fmt.Errorf("package initialisation failed: %v", describePanic(rec))
			if r.Cfg.Debug {
				debug.PrintStack()
			}
		}
	}()
	var pkgs []*ssa.Package
	for _, pkg := range r.Prog.AllPackages() {
		if pkg.Pkg != nil && r.initPackage(pkg.Pkg.Path()) {
			pkgs = append(pkgs, pkg)
		}
	}
	sort.Slice(pkgs, func(a, b int) bool { return pkgs[a].Pkg.Path() < pkgs[b].Pkg.Path() })
	for _, pkg := range pkgs {
		if f := pkg.Func("init"); f != nil {
			func() {
				// A failing initialiser leaves that package partially
				// initialised; harnesses that depend on it will notice.
				defer func() {
					if rec := recover(); rec != nil {
						r.noteStub("package initialiser of " + pkg.Pkg.Path() + " did not complete in the engine: " + describePanic(rec))
					}
				}()
				i.callSSA(nil, token.NoPos, f, nil, nil)
			}()
		}
	}
	i.funcsSeen = map[*ssa.Function]bool{}
	i.trailOn = true
	i.trail = nil
	return ex, nil
}

func describePanic(rec interface{}) string {
	switch p := rec.(type) {
	case targetPanic:
		return "target panic: " + toString(p.v)
	case pathAbort:
		return p.kind + ": " + p.msg
	case engineError:
		return "engine error: " + p.msg
	}
	return fmt.Sprint(rec)
}

// runPath executes one path of it.job following it.prefix.
func (ex *Explorer) runPath(it *workItem) (forks [][]decision) {
	i := ex.i
	j := it.job
	ex.job = j
	ex.inputs = ex.inputs[:0]
	ex.auxN = 0
	ex.opaqueFmt = 0
	ex.mapOrderNondet = false
	i.gomaxprocs = 0
	i.goDepth = 0
	ex.files = nil
	ex.hashUF = false
	ex.haveModel = false
	i.pc = i.pc[:0]
	i.prefix = it.prefix
	i.decisions = i.decisions[:0]
	i.forks = nil
	i.steps = 0
	i.maxSteps = ex.run.Cfg.MaxSteps
	i.lastFrame = nil
	start := time.Now()

	pkg := ex.run.Prog.ImportedPackage(j.Pkg)
	var fn *ssa.Function
	if pkg != nil {
		fn = pkg.Func(j.Harness)
	}
	outcome, msg := "ok", ""
	panicWhere := ""
	if fn == nil {
		outcome, msg = "unsupported", "harness function not found: "+j.Pkg+"."+j.Harness
	} else {
		func() {
			defer func() {
				if rec := recover(); rec != nil {
					switch p := rec.(type) {
					case pathAbort:
						outcome, msg = p.kind, p.msg
					case targetPanic:
						outcome, msg = "panic", toString(p.v)
						if i.lastFrame != nil {
							panicWhere = i.where(i.lastFrame) + " in " + i.lastFrame.fn.String()
						}
						if e, ok := p.v.(iface); ok && e.t != nil {
							msg = ex.panicText(e)
						}
					case engineError:
						outcome, msg = "engine", p.msg
					default:
						outcome, msg = "unsupported", fmt.Sprintf("engine panic: %v", rec)
						if ex.run.Cfg.Debug {
							debug.PrintStack()
						}
					}
				}
			}()
			i.callSSA(nil, token.NoPos, fn, nil, nil)
		}()
	}
	if ex.run.Cfg.Debug && os.Getenv("VERIF_DEBUG_PATHS") != "" {
		ex.debugPath(i, outcome+" "+msg)
	}
	// undo all writes of this path
	forks = i.forks
	i.forks = nil

	j.mu.Lock()
	if j.Started.IsZero() {
		j.Started = start
	}
	j.Paths++
	j.Decisions += int64(len(i.decisions))
	switch outcome {
	case "ok", "done":
		j.PathsOK++
	case "assume", "infeasible":
		j.Pruned++
	case "deadline":
		j.Truncated = true
	case "steps", "depth", "deadlock":
		j.StepsOut++
		j.Unsupported[outcome+": "+msg]++
	case "panic":
		j.Panics++
	case "engine":
		ex.run.engineErr(j.Key() + ": " + msg)
		j.Unsupported["engine: "+msg]++
	default:
		j.Unsupported[msg]++
	}
	if len(j.Samples) < 3 && (outcome == "ok" || outcome == "panic") && j.Concrete == nil {
		j.mu.Unlock()
		s := ex.samplePath(i, outcome)
		j.mu.Lock()
		if s != nil && len(j.Samples) < 3 {
			j.Samples = append(j.Samples, s)
		}
	}
	j.Wall = time.Since(j.Started)
	j.mu.Unlock()

	if outcome == "deadlock" && j.HangIsViolation {
		outcome = "steps" // a deadlock of the main goroutine is non-termination
	}
	if outcome == "panic" || (outcome == "steps" && j.HangIsViolation) {
		// An escaped panic (or a non-terminating path where termination is
		// part of the property) is a violation candidate: find inputs.
		kind, label := "panic", "no-panic"
		if outcome == "steps" {
			kind, label = "hang", "terminates"
		}
		if j.Concrete != nil {
			ex.run.addViolation(&Violation{Job: j, Label: label, Kind: kind, Msg: msg, Inputs: j.Concrete, Where: panicWhere})
		} else {
			s := ex.solverFor(i.pc, nil)
			res, m := s.Check(i.pc, nil, ex.run.Cfg.ProveTimeoutMs, ex.inputVars())
			if res == Sat {
				ex.run.addViolation(&Violation{Job: j, Label: label, Kind: kind, Msg: msg, Inputs: ex.inputsFromModel(m), Where: panicWhere})
			} else if res == Unknown {
				j.mu.Lock()
				j.Inconcl++
				j.mu.Unlock()
			}
		}
	}

	ex.run.mu.Lock()
	for f := range i.funcsSeen {
		ex.run.funcs[f.String()] = true
	}
	ex.run.mu.Unlock()
	for f := range i.funcsSeen {
		delete(i.funcsSeen, f)
	}
	i.undoTrail()
	return forks
}

func (ex *Explorer) panicText(e iface) string {
	defer func() { recover() }()
	if m := ex.i.findMethod(e.t, "Error"); m != nil {
		if s, ok := concreteStr(ex.i.callSSA(nil, token.NoPos, m, []value{e.v}, nil)); ok {
			return s
		}
	}
	if s, ok := concreteStr(e.v); ok {
		return s
	}
	return toString(e.v)
}

// samplePath produces a concrete witness (input values) for the finished path.
func (ex *Explorer) samplePath(i *interpreter, outcome string) map[string]interface{} {
	if len(ex.inputs) == 0 {
		return map[string]interface{}{"outcome": outcome, "inputs": []InputVal{}, "decisions": len(i.decisions)}
	}
	var m Model
	if ex.modelOK(i) {
		m = ex.model
	} else {
		s := ex.solverFor(i.pc, nil)
		res, mm := s.Check(i.pc, nil, ex.run.Cfg.FeasTimeoutMs, ex.inputVars())
		if res != Sat {
			return nil
		}
		m = mm
	}
	return map[string]interface{}{"outcome": outcome, "inputs": ex.inputsFromModel(m), "decisions": len(i.decisions), "job": ex.job.Key()}
}

var _ = types.Typ

// debugPath prints the branch sites of a finished path (debug aid).
func (ex *Explorer) debugPath(i *interpreter, outcome string) {
	var sb strings.Builder
	for k, c := range i.pc {
		if k < len(i.pc)-14 {
			continue
		}
		s := c.String()
		if len(s) > 90 {
			s = s[:90] + "…"
		}
		sb.WriteString("\n    " + s)
	}
	fmt.Fprintf(os.Stderr, "PATH %s outcome=%s decisions=%d pc:%s\n", ex.job.Key(), outcome, len(i.decisions), sb.String())
}

// bvSolver names the primary bit-vector solver: z3 5.1.0 ("z3-new") decides
// the byte-level queries of this code base about ten times faster than 4.8.12.
func bvSolver() string {
	if s := os.Getenv("VERIF_BV_SOLVER"); s != "" {
		return s
	}
	return "z3-new"
}

func bvCrossSolver() string {
	if bvSolver() == "z3" {
		return "z3-new"
	}
	return "z3"
}

func pcUsesFP(pc []*Term) bool {
	for _, c := range pc {
		if c.fp {
			return true
		}
	}
	return false
}

package sx

// solver.go: long-lived SMT solver processes driven over pipes with SMT-LIB2
// text. Definitions are global (":global-declarations"), the assertion stack
// mirrors the current path condition one push level per conjunct.

import (
	"bufio"
	"fmt"
	"io"
	"os/exec"
	"strconv"
	"strings"
	"time"
)

type Result int

const (
	Unknown Result = iota
	Sat
	Unsat
)

func (r Result) String() string { return [...]string{"unknown", "sat", "unsat"}[r] }

type SolverStats struct {
	Queries  int
	Sat      int
	Unsat    int
	Unknown  int
	Errors   int
	Time     time.Duration
	Restarts int
}

type Solver struct {
	Kind    string // "z3", "z3-new" or "cvc5"
	cmd     *exec.Cmd
	in      io.WriteCloser
	out     *bufio.Reader
	defined map[int32]bool // term ids already sent
	ufDecl  map[string]bool
	stack   []*Term // asserted path-condition conjuncts, one push level each
	Stats   SolverStats
	Log     io.Writer // optional transcript
	timeout int       // ms, current setting
	dead    bool
}

func NewSolver(kind string) (*Solver, error) {
	s := &Solver{Kind: kind}
	if err := s.start(); err != nil {
		return nil, err
	}
	return s, nil
}

func (s *Solver) start() error {
	var cmd *exec.Cmd
	switch s.Kind {
	case "z3":
		cmd = exec.Command("z3", "-in")
	case "z3-new":
		cmd = exec.Command("z3-new", "-in")
	case "cvc5":
		cmd = exec.Command("cvc5", "--incremental", "--lang=smt2", "--produce-models", "--fp-exp")
	default:
		return fmt.Errorf("unknown solver %q", s.Kind)
	}
	in, err := cmd.StdinPipe()
	if err != nil {
		return err
	}
	out, err := cmd.StdoutPipe()
	if err != nil {
		return err
	}
	cmd.Stderr = nil
	if err := cmd.Start(); err != nil {
		return err
	}
	s.cmd, s.in, s.out = cmd, in, bufio.NewReaderSize(out, 1<<16)
	s.defined = map[int32]bool{}
	s.ufDecl = map[string]bool{}
	s.stack = nil
	s.dead = false
	s.timeout = -1
	s.send("(set-option :global-declarations true)")
	if s.Kind != "cvc5" {
		s.send("(set-option :produce-models true)")
	}
	s.send("(set-logic ALL)")
	return nil
}

func (s *Solver) Close() {
	if s.cmd != nil && s.cmd.Process != nil {
		s.in.Close()
		s.cmd.Process.Kill()
		s.cmd.Wait()
	}
	s.dead = true
}

func (s *Solver) restart() {
	s.Close()
	s.Stats.Restarts++
	if err := s.start(); err != nil {
		panic(engineError{"solver restart: " + err.Error()})
	}
}

func (s *Solver) send(line string) {
	if s.Log != nil {
		fmt.Fprintln(s.Log, line)
	}
	io.WriteString(s.in, line)
	io.WriteString(s.in, "\n")
}

func (s *Solver) setTimeout(ms int) {
	if ms == s.timeout {
		return
	}
	s.timeout = ms
	switch s.Kind {
	case "cvc5":
		s.send(fmt.Sprintf("(set-option :tlimit-per %d)", ms))
	default:
		s.send(fmt.Sprintf("(set-option :timeout %d)", ms))
	}
}

// define sends definitions for every not yet defined node under t.
func (s *Solver) define(t *Term) {
	if t == nil || t.op == OConst {
		return
	}
	if s.defined[t.id] {
		return
	}
	// iterative post-order to avoid deep recursion
	type fr struct {
		t    *Term
		next int
	}
	st := []fr{{t, 0}}
	for len(st) > 0 {
		top := &st[len(st)-1]
		kids := [3]*Term{top.t.a, top.t.b, top.t.c}
		pushed := false
		for top.next < 3 {
			k := kids[top.next]
			top.next++
			if k != nil && k.op != OConst && !s.defined[k.id] {
				st = append(st, fr{k, 0})
				pushed = true
				break
			}
		}
		if pushed {
			continue
		}
		n := top.t
		st = st[:len(st)-1]
		if s.defined[n.id] {
			continue
		}
		s.defined[n.id] = true
		switch n.op {
		case OVar:
			s.send(fmt.Sprintf("(declare-const %s %s)", n.name, n.sort.SMT()))
		default:
			if n.op == OUF && !s.ufDecl[n.name] {
				s.ufDecl[n.name] = true
				args := n.a.sort.SMT()
				if n.b != nil {
					args += " " + n.b.sort.SMT()
				}
				s.send(fmt.Sprintf("(declare-fun %s (%s) %s)", n.name, args, n.sort.SMT()))
			}
			s.send(fmt.Sprintf("(define-fun t%d () %s %s)", n.id, n.sort.SMT(), n.body()))
		}
	}
}

// readAnswer reads one check-sat answer, skipping blank lines.
func (s *Solver) readLine() (string, error) {
	for {
		line, err := s.out.ReadString('\n')
		if err != nil {
			return "", err
		}
		line = strings.TrimSpace(line)
		if line != "" {
			return line, nil
		}
	}
}

// sync makes the solver's assertion stack equal to pc.
func (s *Solver) sync(pc []*Term) {
	n := 0
	for n < len(pc) && n < len(s.stack) && pc[n] == s.stack[n] {
		n++
	}
	if k := len(s.stack) - n; k > 0 {
		s.send(fmt.Sprintf("(pop %d)", k))
		s.stack = s.stack[:n]
	}
	for _, c := range pc[n:] {
		s.define(c)
		s.send("(push 1)")
		s.send(fmt.Sprintf("(assert %s)", c.ref()))
		s.stack = append(s.stack, c)
	}
}

// Check decides satisfiability of pc ∧ extra (extra may be nil).
// If wantModel is non-nil and the answer is sat, the values of those
// variables are returned.
func (s *Solver) Check(pc []*Term, extra *Term, timeoutMs int, wantModel []*Term) (Result, Model) {
	if s.dead {
		s.restart()
	}
	start := time.Now()
	defer func() { s.Stats.Time += time.Since(start) }()
	s.Stats.Queries++
	s.sync(pc)
	s.setTimeout(timeoutMs)
	if extra != nil {
		s.define(extra)
		s.send("(push 1)")
		s.send(fmt.Sprintf("(assert %s)", extra.ref()))
	}
	s.send("(check-sat)")
	// Watchdog: a solver that ignores its time limit is killed; the query is
	// then inconclusive.
	proc := s.cmd.Process
	wd := time.AfterFunc(time.Duration(timeoutMs)*time.Millisecond+3*time.Second, func() { proc.Kill() })
	ans, err := s.readLine()
	wd.Stop()
	res := Unknown
	switch {
	case err != nil:
		s.Stats.Errors++
		s.restart()
		s.Stats.Unknown++
		return Unknown, nil
	case ans == "sat":
		res = Sat
		s.Stats.Sat++
	case ans == "unsat":
		res = Unsat
		s.Stats.Unsat++
	case strings.HasPrefix(ans, "(error"):
		// Never a verdict. Restart to get back to a clean state.
		s.Stats.Errors++
		s.Stats.Unknown++
		if s.Log != nil {
			fmt.Fprintln(s.Log, "; SOLVER ERROR:", ans)
		}
		s.restart()
		return Unknown, nil
	default:
		s.Stats.Unknown++
	}
	var model Model
	if res == Sat && len(wantModel) > 0 {
		model = s.getModel(wantModel)
		if model == nil {
			res = Unknown
		}
	}
	if extra != nil && !s.dead {
		s.send("(pop 1)")
	}
	return res, model
}

func (s *Solver) getModel(vars []*Term) Model {
	var sb strings.Builder
	sb.WriteString("(get-value (")
	n := 0
	for _, v := range vars {
		if s.defined[v.id] {
			sb.WriteString(v.name)
			sb.WriteByte(' ')
			n++
		}
	}
	sb.WriteString("))")
	m := Model{}
	if n == 0 {
		return m
	}
	s.send(sb.String())
	// read a balanced s-expression
	depth := 0
	var txt strings.Builder
	for {
		line, err := s.out.ReadString('\n')
		if err != nil {
			s.Stats.Errors++
			s.restart()
			return nil
		}
		txt.WriteString(line)
		for _, ch := range line {
			if ch == '(' {
				depth++
			} else if ch == ')' {
				depth--
			}
		}
		if depth <= 0 && strings.TrimSpace(txt.String()) != "" {
			break
		}
	}
	t := txt.String()
	if strings.Contains(t, "(error") {
		s.Stats.Errors++
		s.restart()
		return nil
	}
	// parse pairs "(name value)"
	toks := tokenize(t)
	// expected: ( ( name val ) ( name val ) ... )
	i := 0
	if i < len(toks) && toks[i] == "(" {
		i++
	}
	for i < len(toks) && toks[i] == "(" {
		i++
		if i+1 >= len(toks) {
			break
		}
		name := toks[i]
		i++
		val := toks[i]
		i++
		switch {
		case val == "true":
			m[name] = 1
		case val == "false":
			m[name] = 0
		case strings.HasPrefix(val, "#x"):
			u, _ := strconv.ParseUint(val[2:], 16, 64)
			m[name] = u
		case strings.HasPrefix(val, "#b"):
			u, _ := strconv.ParseUint(val[2:], 2, 64)
			m[name] = u
		case val == "(":
			// (_ bvN w)
			if i+2 < len(toks) && toks[i] == "_" && strings.HasPrefix(toks[i+1], "bv") {
				u, _ := strconv.ParseUint(toks[i+1][2:], 10, 64)
				m[name] = u
			}
			d := 1
			for i < len(toks) && d > 0 {
				if toks[i] == "(" {
					d++
				} else if toks[i] == ")" {
					d--
				}
				i++
			}
		}
		for i < len(toks) && toks[i] != ")" {
			i++
		}
		i++ // ')'
	}
	return m
}

func tokenize(s string) []string {
	var toks []string
	cur := strings.Builder{}
	flush := func() {
		if cur.Len() > 0 {
			toks = append(toks, cur.String())
			cur.Reset()
		}
	}
	for _, ch := range s {
		switch ch {
		case '(', ')':
			flush()
			toks = append(toks, string(ch))
		case ' ', '\n', '\t', '\r':
			flush()
		default:
			cur.WriteRune(ch)
		}
	}
	flush()
	return toks
}

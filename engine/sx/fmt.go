package sx

// fmt.go: a small model of fmt's formatted printing. Concrete arguments of
// basic types are formatted by the real fmt; symbolic byte strings are
// spliced for %s/%v; everything else is rendered opaquely and the path is
// marked so a harness can not silently depend on it.

import (
	"fmt"
	"go/types"
	"regexp"
	"strconv"
	"strings"
	"sync"
)

var widthVerb = regexp.MustCompile(`^%(-?)([0-9]+)[sv]$`)

var unicodeMu sync.Mutex

// goValue converts a concrete scalar/string to the Go value of the matching
// basic kind.
func goValue(t types.Type, v value) (interface{}, bool) {
	switch x := v.(type) {
	case string:
		return x, true
	case *Term:
		if x.op != OConst {
			return nil, false
		}
		b, ok := t.Underlying().(*types.Basic)
		if !ok {
			return nil, false
		}
		switch b.Kind() {
		case types.Bool:
			return x.val != 0, true
		case types.Int:
			return int(x.ConstS64()), true
		case types.Int8:
			return int8(x.ConstS64()), true
		case types.Int16:
			return int16(x.ConstS64()), true
		case types.Int32:
			return int32(x.ConstS64()), true
		case types.Int64:
			return x.ConstS64(), true
		case types.Uint:
			return uint(x.val), true
		case types.Uint8:
			return uint8(x.val), true
		case types.Uint16:
			return uint16(x.val), true
		case types.Uint32:
			return uint32(x.val), true
		case types.Uint64:
			return x.val, true
		case types.Uintptr:
			return uintptr(x.val), true
		case types.Float32:
			return float32(x.ConstF64()), true
		case types.Float64:
			return x.ConstF64(), true
		}
	}
	return nil, false
}

// fmtArg renders one argument under one verb (verb includes '%' and flags).
func (i *interpreter) fmtArg(fr *frame, verb string, arg value) value {
	a, ok := arg.(iface)
	if !ok {
		return "%!v(BADARG)"
	}
	if a.t == nil {
		if strings.HasSuffix(verb, "v") || strings.HasSuffix(verb, "s") {
			return "<nil>"
		}
		return "%!" + verb[len(verb)-1:] + "(<nil>)"
	}
	last := verb[len(verb)-1]
	// error / Stringer
	if last == 'v' || last == 's' || last == 'q' {
		for _, mname := range []string{"Error", "String"} {
			if m := i.findMethod(a.t, mname); m != nil && m.Signature.Params().Len() == 0 && m.Signature.Results().Len() == 1 && isString(m.Signature.Results().At(0).Type()) {
				if p, isPtr := a.v.(*value); isPtr && p == nil {
					return "<nil>"
				}
				s := i.callSSA(fr, 0, m, []value{a.v}, nil)
				return i.fmtString(verb, s)
			}
		}
	}
	switch v := a.v.(type) {
	case string, symstr:
		return i.fmtString(verb, v)
	case *Term:
		if g, ok := goValue(a.t, v); ok {
			return fmt.Sprintf(verb, g)
		}
		i.ex.run.noteStub("fmt: a symbolic number formatted with " + verb + " becomes an opaque string")
		i.ex.opaqueFmt++
		return i.opaqueString(fmt.Sprintf("fmt%s", verb), v)
	case []value:
		if sl, ok := a.t.Underlying().(*types.Slice); ok {
			if bk, ok := sl.Elem().Underlying().(*types.Basic); ok && bk.Kind() == types.Byte && (last == 's' || last == 'q' || last == 'x') {
				return i.fmtString(verb, i.bytesToStr(v))
			}
			// %v of a slice of basics
			if last == 'v' || last == 's' || last == 'd' || last == 'q' {
				var parts []value
				parts = append(parts, "[")
				for k, e := range v {
					if k > 0 {
						parts = append(parts, " ")
					}
					parts = append(parts, i.fmtArg(fr, verb, iface{sl.Elem(), e}))
				}
				parts = append(parts, "]")
				return i.concatAll(parts)
			}
		}
	case iface:
		return i.fmtArg(fr, verb, v)
	}
	return fmt.Sprintf("<%s>", a.t.String())
}

// opaqueString stands for the decimal rendering of a symbolic number: a
// string of fresh unconstrained bytes is not faithful (its length is fixed),
// so any comparison against it is meaningless; it is a tagged placeholder.
func (i *interpreter) opaqueString(tag string, t *Term) value {
	return "⟨" + tag + ":" + t.String() + "⟩"
}

func (i *interpreter) concatAll(parts []value) value {
	var res value = ""
	for _, p := range parts {
		res = i.strConcat(res, p)
	}
	if s, ok := res.(symstr); ok {
		return normStr(s)
	}
	return res
}

func (i *interpreter) fmtString(verb string, s value) value {
	if cs, ok := concreteStr(s); ok {
		return fmt.Sprintf(verb, cs)
	}
	if verb == "%s" || verb == "%v" {
		return s
	}
	// %Ns / %-Ns on symbolic text: pad to N runes (rune count by the real
	// utf8.RuneCountInString, which may fork on byte classes)
	if m := widthVerb.FindStringSubmatch(verb); m != nil {
		w, _ := strconv.Atoi(m[2])
		n := int(i.concInt(i.callNamed(i.lastFrame, "unicode/utf8", "RuneCountInString", []value{s}), "rune count"))
		pad := ""
		if w > n {
			pad = strings.Repeat(" ", w-n)
		}
		if m[1] == "-" {
			return i.strConcat(s, pad)
		}
		return i.strConcat(pad, s)
	}
	// Other verbs (%q, widths) on symbolic text: rendered opaquely. Such
	// strings are error-message text; comparing them is meaningless.
	i.ex.run.noteStub("fmt: verb " + verb + " applied to symbolic text yields an opaque placeholder")
	i.ex.opaqueFmt++
	return "⟨fmt" + verb + ":symbolic-text⟩"
}

// sprintf implements the formatting of format with args ([]iface values).
func (i *interpreter) sprintf(fr *frame, format value, args []value) value {
	f, ok := concreteStr(format)
	if !ok {
		i.unsupported("symbolic format string")
	}
	var parts []value
	argi := 0
	for k := 0; k < len(f); {
		if f[k] != '%' {
			j := strings.IndexByte(f[k:], '%')
			if j < 0 {
				j = len(f) - k
			}
			parts = append(parts, f[k:k+j])
			k += j
			continue
		}
		// parse verb
		j := k + 1
		verb := "%"
		for j < len(f) && strings.IndexByte("+-# 0", f[j]) >= 0 {
			verb += string(f[j])
			j++
		}
		// width
		if j < len(f) && f[j] == '*' {
			if argi < len(args) {
				w := args[argi].(iface)
				argi++
				wt, ok := w.v.(*Term)
				if !ok || wt.op != OConst {
					i.unsupported("symbolic width in format")
				}
				verb += fmt.Sprint(wt.ConstS64())
			}
			j++
		} else {
			for j < len(f) && f[j] >= '0' && f[j] <= '9' {
				verb += string(f[j])
				j++
			}
		}
		if j < len(f) && f[j] == '.' {
			verb += "."
			j++
			if j < len(f) && f[j] == '*' {
				if argi < len(args) {
					w := args[argi].(iface)
					argi++
					wt, ok := w.v.(*Term)
					if !ok || wt.op != OConst {
						i.unsupported("symbolic precision in format")
					}
					verb += fmt.Sprint(wt.ConstS64())
				}
				j++
			} else {
				for j < len(f) && f[j] >= '0' && f[j] <= '9' {
					verb += string(f[j])
					j++
				}
			}
		}
		if j >= len(f) {
			parts = append(parts, "%!(NOVERB)")
			break
		}
		c := f[j]
		j++
		k = j
		if c == '%' {
			parts = append(parts, "%")
			continue
		}
		verb += string(c)
		if c == 'w' {
			verb = verb[:len(verb)-1] + "v"
		}
		if argi >= len(args) {
			parts = append(parts, "%!"+string(c)+"(MISSING)")
			continue
		}
		parts = append(parts, i.fmtArg(fr, verb, args[argi]))
		argi++
	}
	return i.concatAll(parts)
}

func extSprintf(fr *frame, args []value) value {
	return fr.i.sprintf(fr, args[0], args[1].([]value))
}

func extErrorf(fr *frame, args []value) value {
	i := fr.i
	msg := i.sprintf(fr, args[0], args[1].([]value))
	// %w wrapping: keep the first wrapped error reachable through Unwrap by
	// building a *fmt.wrapError when the format contains %w.
	if f, _ := concreteStr(args[0]); strings.Contains(f, "%w") {
		for _, a := range args[1].([]value) {
			if e, ok := a.(iface); ok && e.t != nil && i.findMethod(e.t, "Error") != nil {
				if pkg := i.prog.ImportedPackage("fmt"); pkg != nil {
					if wt := pkg.Type("wrapError"); wt != nil {
						var cell value = structure{msg, e}
						return iface{types.NewPointer(wt.Type()), &cell}
					}
				}
			}
		}
	}
	return i.mkError(msg)
}

func (i *interpreter) writeTo(fr *frame, w value, s value) value {
	wi := w.(iface)
	if wi.t == nil {
		nilDeref()
	}
	m := i.findMethod(wi.t, "Write")
	if m == nil {
		i.unsupported("Fprintf target %v has no Write", wi.t)
	}
	return i.callSSA(fr, 0, m, []value{wi.v, i.strToBytes(s)}, nil)
}

func extFprintf(fr *frame, args []value) value {
	i := fr.i
	s := i.sprintf(fr, args[1], args[2].([]value))
	return i.writeTo(fr, args[0], s)
}

func (i *interpreter) sprint(fr *frame, args []value, ln bool) value {
	var parts []value
	prevStr := true
	for k, a := range args {
		ai := a.(iface)
		_, isStr := ai.v.(string)
		if _, ok := ai.v.(symstr); ok {
			isStr = true
		}
		if k > 0 && (ln || (!isStr && !prevStr)) {
			parts = append(parts, " ")
		}
		parts = append(parts, i.fmtArg(fr, "%v", a))
		prevStr = isStr
	}
	if ln {
		parts = append(parts, "\n")
	}
	return i.concatAll(parts)
}

func extSprint(fr *frame, args []value) value   { return fr.i.sprint(fr, args[0].([]value), false) }
func extSprintln(fr *frame, args []value) value { return fr.i.sprint(fr, args[0].([]value), true) }
func extFprint(fr *frame, args []value) value {
	return fr.i.writeTo(fr, args[0], fr.i.sprint(fr, args[1].([]value), false))
}
func extFprintln(fr *frame, args []value) value {
	return fr.i.writeTo(fr, args[0], fr.i.sprint(fr, args[1].([]value), true))
}

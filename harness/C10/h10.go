package benchunit

// C10: scaled numbers keep at least three significant digits, boundaries
// coincide with how the mantissa rounds.
//
// strconv.AppendFloat(q,'f',p,64) prints the exact decimal value of the
// double q rounded to p places. "The printed mantissa is >= 10^k" is therefore
// the float comparison q >= c, where c is the smallest double whose exact
// value is >= 10^k - 5*10^-(p+1) (never a tie: that bound is not a dyadic
// rational). The constants below were computed in exact rational arithmetic.

import "math"

const (
	h10lo3 = 0x1.ffbe76c8b4396p-1 // prints >= 1.000 at 3 places
	h10hi3 = 0x1.3ffbe76c8b43ap+3 // prints >= 10.000 at 3 places
	h10lo2 = 0x1.3fd70a3d70a3ep+3 // prints >= 10.00 at 2 places
	h10hi2 = 0x1.8ffae147ae148p+6 // prints >= 100.00 at 2 places
	h10lo1 = 0x1.8fccccccccccdp+6 // prints >= 100.0 at 1 place
	h10hi1 = 0x1.f3f999999999ap+9 // prints >= 1000.0 at 1 place
)

// smallest double that prints with at least 3 significant digits at p places
var h10sig = map[int]float64{
	3: 0x1.978d4fdf3b646p-4, 4: 0x1.460aa64c2f838p-7, 5: 0x1.04d551d68c693p-10, 6: 0x1.a1554fbdad752p-14,
	7: 0x1.4dddd9648ac42p-17, 8: 0x1.0b17e11d3bd01p-20, 9: 0x1.ab59682ec619cp-24, 10: 0x1.55e120256b47dp-27,
}

func h10Finite(v float64) bool {
	return vndAnd(v == v, vndAnd(v <= math.MaxFloat64, v >= -math.MaxFloat64))
}

// H10Scale: every finite non-zero float against the chosen scale.
func H10Scale() {
	cls := Class(vndParam("class"))
	v := vndFloat64("v")
	vndAssume(vndAnd(h10Finite(v), v != 0))
	if vndParam("positive") == 1 {
		vndAssume(v > 0)
	}
	s := CommonScale([]float64{v}, cls)
	q := math.Abs(v) / s.Factor // the number Format prints
	vndReach("h10:scaled")

	factors := siFactors
	if cls == Binary {
		factors = iecFactors
	}
	idx := -1
	for i, f := range factors {
		if f.factor == s.Factor && f.prefix == s.Prefix {
			idx = i
		}
	}
	vndAssert(idx >= 0, "scale-is-a-documented-prefix")
	if idx < 0 {
		return
	}
	smallest := idx == len(factors)-1
	switch {
	case s.Prec == 1:
		vndReach("h10:prec1")
		vndAssert(q >= h10lo1, "one-decimal-only-from-100.0-up")
		if idx > 0 {
			if cls == Binary {
				vndAssert(q < 1024, "binary-mantissa-below-1024")
			} else {
				vndAssert(q < h10hi1, "never-prints-1000.0-when-a-larger-prefix-exists")
			}
		}
	case s.Prec == 2:
		vndAssert(vndAnd(q >= h10lo2, q < h10hi2), "two-decimals-exactly-for-10.00-to-99.99")
	case s.Prec == 3 && !(smallest && q < h10lo3):
		vndAssert(vndAnd(q >= h10lo3, q < h10hi3), "three-decimals-exactly-for-1.000-to-9.999")
	default:
		// below the smallest prefix: at least 3 significant digits down to 1e-8
		vndReach("h10:below-smallest-prefix")
		vndAssert(smallest, "fallback-precision-only-below-the-smallest-prefix")
		vndAssert(s.Prec >= 3 && s.Prec <= 10, "fallback-precision-range")
		if s.Prec < 10 {
			vndAssert(q >= h10sig[s.Prec], "at-least-three-significant-digits")
		} else {
			vndAssert(vndOr(q >= h10sig[10], q < 9.9995e-9), "at-least-three-significant-digits-down-to-1e-8")
		}
	}
	vndObserveInt("prec", s.Prec)
	vndObserveStr("prefix", s.Prefix)
}

// H10Common: a scale shared by several values is the one of the smallest
// non-zero magnitude.
func H10Common() {
	cls := Class(vndParam("class"))
	n := vndParam("n")
	vals := make([]float64, n)
	min := 0.0
	for i := range vals {
		vals[i] = vndFloat64("v")
		vndAssume(h10Finite(vals[i]))
		a := math.Abs(vals[i])
		take := vndAnd(a != 0, vndOr(min == 0, a < min))
		min = vndIteF64(take, a, min)
	}
	got := CommonScale(vals, cls)
	want := CommonScale([]float64{min}, cls)
	vndReach("h10:common")
	vndAssert(got == want, "shared-scale-is-that-of-the-smallest-non-zero-magnitude")
	if min == 0 {
		vndAssert(got == Scaler{3, 1, ""}, "all-zero-default-scale")
	}
}

package benchunit

// C10: scaled numbers keep at least three significant digits, boundaries
// coincide with how the mantissa rounds.
//
// strconv.AppendFloat(q,'f',p,64) prints the exact decimal value of the
// double q rounded to p places. "The printed mantissa is >= 10^k" is therefore
// the float comparison q >= c, where c is the smallest double whose exact
// value is >= 10^k - 5*10^-(p+1) (never a tie: that bound is not a dyadic
// rational). The constants below were computed in exact rational arithmetic.

import (
	"strings"
	"math"
	"strconv"
)

const (
	h10lo3 = 0x1.ffbe76c8b4396p-1 // prints >= 1.000 at 3 places
	h10hi3 = 0x1.3ffbe76c8b43ap+3 // prints >= 10.000 at 3 places
	h10lo2 = 0x1.3fd70a3d70a3ep+3 // prints >= 10.00 at 2 places
	h10hi2 = 0x1.8ffae147ae148p+6 // prints >= 100.00 at 2 places
	h10lo1 = 0x1.8fccccccccccdp+6 // prints >= 100.0 at 1 place
	h10hi1 = 0x1.f3f999999999ap+9 // prints >= 1000.0 at 1 place
)

// smallest double that prints with at least 3 significant digits at p places
var h10sig = map[int]float64{
	3: 0x1.978d4fdf3b646p-4, 4: 0x1.460aa64c2f838p-7, 5: 0x1.04d551d68c693p-10, 6: 0x1.a1554fbdad752p-14,
	7: 0x1.4dddd9648ac42p-17, 8: 0x1.0b17e11d3bd01p-20, 9: 0x1.ab59682ec619cp-24, 10: 0x1.55e120256b47dp-27,
}

func h10Finite(v float64) bool {
	return vndAnd(v == v, vndAnd(v <= math.MaxFloat64, v >= -math.MaxFloat64))
}

// H10Scale: every finite non-zero float against the chosen scale.
func H10Scale() {
	cls := Class(vndParam("class"))
	v := vndFloat64("v")
	vndAssume(vndAnd(h10Finite(v), v != 0))
	if vndParam("positive") == 1 {
		vndAssume(v > 0)
	}
	s := CommonScale([]float64{v}, cls)
	q := math.Abs(v) / s.Factor // the number Format prints
	vndReach("h10:scaled")

	factors := siFactors
	if cls == Binary {
		factors = iecFactors
	}
	idx := -1
	for i, f := range factors {
		if f.factor == s.Factor && f.prefix == s.Prefix {
			idx = i
		}
	}
	vndAssert(idx >= 0, "scale-is-a-documented-prefix")
	if idx < 0 {
		return
	}
	smallest := idx == len(factors)-1
	switch {
	case s.Prec == 1:
		vndReach("h10:prec1")
		vndAssert(q >= h10lo1, "one-decimal-only-from-100.0-up")
		if idx > 0 {
			if cls == Binary {
				vndAssert(q < 1024, "binary-mantissa-below-1024")
			} else {
				vndAssert(q < h10hi1, "never-prints-1000.0-when-a-larger-prefix-exists")
			}
		}
	case s.Prec == 2:
		vndAssert(vndAnd(q >= h10lo2, q < h10hi2), "two-decimals-exactly-for-10.00-to-99.99")
	case s.Prec == 3 && !(smallest && q < h10lo3):
		vndAssert(vndAnd(q >= h10lo3, q < h10hi3), "three-decimals-exactly-for-1.000-to-9.999")
	default:
		// below the smallest prefix: at least 3 significant digits down to 1e-8
		vndReach("h10:below-smallest-prefix")
		vndAssert(smallest, "fallback-precision-only-below-the-smallest-prefix")
		vndAssert(s.Prec >= 3 && s.Prec <= 10, "fallback-precision-range")
		if s.Prec < 10 {
			vndAssert(q >= h10sig[s.Prec], "at-least-three-significant-digits")
		} else {
			vndAssert(vndOr(q >= h10sig[10], q < 9.9995e-9), "at-least-three-significant-digits-down-to-1e-8")
		}
	}
	vndObserveInt("prec", s.Prec)
	vndObserveStr("prefix", s.Prefix)
}

// H10Common: a scale shared by several values is the one of the smallest
// non-zero magnitude.
func H10Common() {
	cls := Class(vndParam("class"))
	n := vndParam("n")
	vals := make([]float64, n)
	min := 0.0
	for i := range vals {
		vals[i] = vndFloat64("v")
		vndAssume(h10Finite(vals[i]))
		a := math.Abs(vals[i])
		take := vndAnd(a != 0, vndOr(min == 0, a < min))
		min = vndIteF64(take, a, min)
	}
	got := CommonScale(vals, cls)
	want := CommonScale([]float64{min}, cls)
	vndReach("h10:common")
	vndAssert(got == want, "shared-scale-is-that-of-the-smallest-non-zero-magnitude")
	if min == 0 {
		vndAssert(got == Scaler{3, 1, ""}, "all-zero-default-scale")
	}
}

// H10NoOp: the no-op scale prints the shortest decimal that reads back to the same float.
// Shortest formatting of an arbitrary symbolic float is outside the solvers' reach, so the
// value is a solver-chosen member of a family around the places where an integer shortcut
// or a digit-count slip would show: +-2^k, its two neighbours, 10^k and k+0.5 (k case-split);
// the reference is the standard library's own shortest formatting.
func H10NoOp() {
	fam := vndParam("family")
	k := vndConcretize(vndInt("k", 0, 80))
	neg := vndBool("neg")
	var v float64
	switch fam {
	case 0:
		v = math.Ldexp(1, k-10)
	case 1:
		v = math.Nextafter(math.Ldexp(1, k-10), math.Inf(1))
	case 2:
		v = math.Nextafter(math.Ldexp(1, k-10), 0)
	case 3:
		v = 1
		for i := 0; i < k%23; i++ {
			v *= 10
		}
	case 4:
		v = float64(k) + 0.5
	default:
		v = math.Ldexp(float64(k*2+1), 40) // odd multiples of 2^40: integral, beyond 2^40
	}
	if neg {
		v = -v
	}
	got := NoOpScaler.Format(v)
	want := strconv.FormatFloat(v, 'f', -1, 64)
	vndReach("h10:noop")
	vndAssert(got == want, "no-op-scale-prints-the-shortest-round-tripping-decimal")
	back, err := strconv.ParseFloat(got, 64)
	vndAssert(err == nil && back == v && math.Signbit(back) == math.Signbit(v), "no-op-scale-reads-back-to-the-same-float")
	vndObserveStr("text", got)
}

// H10History: the scale chosen for a value does not depend on what was scaled before. One
// arbitrary positive value w and a second value related to it by a concrete factor are
// scaled alternately for both unit classes; the first answer for each (value, class) is
// the reference for every later one (the first call of a path starts from the package's
// initial state), and H10Scale pins the first answers to the documented thresholds.
func H10History() {
	w := vndFloat64("w")
	vndAssume(vndAnd(h10Finite(w), w > 0))
	rel := []float64{1, 1.024, 0.5, 1000}[vndParam("rel")]
	x := w * rel
	vndAssume(h10Finite(x))
	d1 := CommonScale([]float64{w}, Decimal)
	b1 := CommonScale([]float64{x}, Binary)
	d2 := CommonScale([]float64{w}, Decimal)
	b2 := CommonScale([]float64{x}, Binary)
	vndReach("h10:history")
	vndAssert(d2 == d1, "scale-independent-of-earlier-calls")
	vndAssert(b2 == b1, "scale-independent-of-earlier-calls")
	// the other way round: binary first on w
	b3 := CommonScale([]float64{w}, Binary)
	d3 := CommonScale([]float64{x}, Decimal)
	b4 := CommonScale([]float64{w}, Binary)
	vndAssert(b4 == b3, "scale-independent-of-earlier-calls")
	if rel == 1 {
		vndAssert(d3 == d1 && b3 == b1, "scale-independent-of-earlier-calls")
	}
	// whatever was asked before, the answer belongs to the class asked for: IEC prefixes
	// (or none) and no fractional scale for binary, SI prefixes for decimal
	for _, b := range []Scaler{b1, b2, b3, b4} {
		vndAssert((b.Prefix == "" || strings.HasSuffix(b.Prefix, "i")) && b.Factor >= 1, "binary-scale-has-an-iec-prefix-or-none")
	}
	for _, d := range []Scaler{d1, d2, d3} {
		vndAssert(!strings.HasSuffix(d.Prefix, "i"), "decimal-scale-has-an-si-prefix")
	}
}

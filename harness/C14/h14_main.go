package main

// C14: the command itself. The real benchstat() entry point (flag parsing, the shared
// projection parser, filter, Files over the os.Open stub, builder, CSV rendering) runs on
// two input files with symbolic configuration values, sub-names and units, for a list of
// flag combinations; its standard output and standard error must be exactly what the
// documented composition of the library gives (table, row, column and ignored keys parsed by
// one parser, in that order, the residue taken afterwards; the filter applied before adding),
// and the documented consequences of -ignore hold. The library pipeline itself is the
// subject of H14Cells.

import (
	"bytes"
	"strings"

	"golang.org/x/perf/benchfmt"
	"golang.org/x/perf/benchmath"
	"golang.org/x/perf/benchproc"
	"golang.org/x/perf/cmd/benchstat/internal/benchtab"
)

type h14Flags struct {
	args                            []string
	table, row, col, ignore, filter string
}

var h14FlagSets = []h14Flags{
	{nil, ".config", ".fullname", ".file", "", "*"},
	{[]string{"-row", ".name", "-ignore", ".fullname"}, ".config", ".name", ".file", ".fullname", "*"},
	{[]string{"-table", "a", "-ignore", ".config"}, "a", ".fullname", ".file", ".config", "*"},
	{[]string{"-col", "a", "-ignore", "b"}, ".config", ".fullname", "a", "b", "*"},
	{[]string{"-filter", ".unit:ns/op", "-row", ".name,/s"}, ".config", ".name,/s", ".file", "", ".unit:ns/op"},
	{[]string{"-table", "a", "-row", ".name", "-ignore", "/s,b"}, "a", ".name", ".file", "/s,b", "*"},
	{[]string{"-ignore", ".fullname,b", "-row", ".name", "-table", "a"}, "a", ".name", ".file", ".fullname,b", "*"},
	{[]string{"-col", "b,.file", "-table", "a"}, "a", ".fullname", "b,.file", "", "*"},
	{[]string{"-col", "b,a,.file", "-table", ".name"}, ".name", ".fullname", "b,a,.file", "", "*"},
	{[]string{"-filter", "a:x", "-row", "/s@(2 1)"}, ".config", "/s@(2 1)", ".file", "", "a:x"},
	{[]string{"-filter", ".unit:B/op", "-row", ".name@(P Q)", "-col", ".file@(f2.txt f1.txt)"}, ".config", ".name@(P Q)", ".file@(f2.txt f1.txt)", "", ".unit:B/op"},
}

func h14Pick(name string, opts string) byte {
	c := vndByte(name)
	ok := false
	for k := 0; k < len(opts); k++ {
		ok = vndOr(ok, c == opts[k])
	}
	vndAssume(ok)
	return c
}

// h14Input makes one input file: a: <x|y>, b: <p|q>, two results of benchmark P/s=<1|2>.
func h14Input(tag string, v0 string) (content []byte, a, b, s1, s2 byte) {
	a, b = h14Pick("a"+tag, "xy"), h14Pick("b"+tag, "pq")
	s1, s2 = h14Pick("s1"+tag, "12"), h14Pick("s2"+tag, "12")
	content = append(content, "a: "...)
	content = append(content, a, '\n')
	if vndBool("hasb" + tag) { // the key b may be missing from a file
		content = append(content, "b: "...)
		content = append(content, b, '\n')
	} else {
		b = 0
	}
	content = append(content, "BenchmarkP/s="...)
	content = append(content, s1)
	content = append(content, (" 1 " + v0 + "1 ns/op 7 B/op\nBenchmarkP/s=")...)
	content = append(content, s2)
	content = append(content, (" 1 " + v0 + "3 ns/op 9 B/op\n")...)
	return
}

func h14Library(f h14Flags, paths []string) (string, string, error) {
	filter, err := benchproc.NewFilter(f.filter)
	if err != nil {
		return "", "", err
	}
	var parser benchproc.ProjectionParser
	tableBy, _, err := parser.ParseWithUnit(f.table, filter)
	if err != nil {
		return "", "", err
	}
	rowBy, err := parser.Parse(f.row, filter)
	if err != nil {
		return "", "", err
	}
	colBy, err := parser.Parse(f.col, filter)
	if err != nil {
		return "", "", err
	}
	if _, err := parser.Parse(f.ignore, filter); err != nil {
		return "", "", err
	}
	residue := parser.Residue()
	stat := benchtab.NewBuilder(tableBy, rowBy, colBy, residue)
	files := benchfmt.Files{Paths: paths, AllowStdin: true, AllowLabels: true}
	for files.Scan() {
		if rec, ok := files.Result().(*benchfmt.Result); ok {
			if ok, _ := filter.Apply(rec); ok {
				stat.Add(rec)
			}
		}
	}
	if err := files.Err(); err != nil {
		return "", "", err
	}
	th := benchmath.DefaultThresholds
	tables := stat.ToTables(benchtab.TableOpts{Confidence: 0.95, Thresholds: &th, Units: files.Units()})
	var out, warn bytes.Buffer
	err = tables.ToCSV(&out, &warn)
	return out.String(), warn.String(), err
}

func H14Main() {
	fs := h14FlagSets[vndParam("flags")]
	c1, a1, b1, s11, s12 := h14Input("1", "1")
	c2, a2, b2, s21, s22 := h14Input("2", "2")
	vndFile("f1.txt", c1)
	vndFile("f2.txt", c2)
	paths := []string{"f1.txt", "f2.txt"}
	args := append(append([]string{"-format", "csv"}, fs.args...), paths...)
	var out, errOut bytes.Buffer
	err := benchstat(&out, &errOut, args)
	vndReach("h14:main")
	wantOut, wantWarn, wantErr := h14Library(fs, paths)
	vndAssert((err == nil) == (wantErr == nil), "command-fails-exactly-when-the-library-does")
	vndAssert(out.String() == wantOut, "command-output-is-the-documented-composition-of-its-flags")
	vndAssert(errOut.String() == wantWarn, "command-warnings-are-the-documented-composition-of-its-flags")
	// documented consequences of -ignore: no warning names an ignored key; an unprojected,
	// unignored key that differs inside a cell is named
	w := errOut.String()
	ignored := func(k string) bool {
		for _, x := range strings.Split(fs.ignore, ",") {
			if x == k {
				return true
			}
		}
		return false
	}
	if ignored(".fullname") {
		vndAssert(!strings.Contains(w, ".fullname"), "no-warning-about-an-ignored-key")
	}
	if ignored(".config") {
		vndAssert(!strings.Contains(w, "vary in b") && !strings.Contains(w, ", b"), "no-warning-about-an-ignored-key")
	}
	if ignored("b") {
		vndAssert(!strings.Contains(w, "vary in b"), "no-warning-about-an-ignored-key")
	}
	if vndParam("flags") == 1 || vndParam("flags") == 6 {
		vndAssert(!strings.Contains(w, "vary in"), "no-warning-about-an-ignored-key")
	}
	// the filter given on the command line holds for everything shown, also when a projection
	// carries a fixed value list of its own
	if fs.filter == "a:x" {
		if a1 != 'x' {
			vndAssert(!strings.Contains(out.String(), "f1.txt"), "results-rejected-by-the-filter-appear-nowhere")
		}
		if a2 != 'x' {
			vndAssert(!strings.Contains(out.String(), "f2.txt"), "results-rejected-by-the-filter-appear-nowhere")
		}
		vndAssert(!strings.Contains(out.String(), "a: y"), "results-rejected-by-the-filter-appear-nowhere")
	}
	if fs.filter == ".unit:B/op" {
		vndAssert(!strings.Contains(out.String(), "sec/op"), "results-rejected-by-the-filter-appear-nowhere")
		vndAssert(strings.Contains(out.String(), "B/op"), "filtered-measurements-are-shown")
	}
	_, _, _, _, _, _, _, _ = a1, a2, b1, b2, s11, s12, s21, s22
	vndObserveStr("out", out.String())
	vndObserveStr("warn", w)
}

// H15MainHistory: the command's output is a function of its arguments and files alone, also
// for repeated runs in one process: a run without -alpha gives the same bytes before and
// after a run with -alpha 0.001 (the samples' p-value, 0.029, lies between the two
// thresholds), and each -alpha takes effect in its own run.
var h15SavedThresholds = benchmath.DefaultThresholds // as initialised, before any run

func H15MainHistory() {
	// every case starts from the package's initial state (natively all replayed cases share a process)
	benchmath.DefaultThresholds = h15SavedThresholds
	a1, a2 := h14Pick("a1", "xy"), h14Pick("a2", "xy")
	mk := func(a byte, base string) []byte {
		var c []byte
		c = append(c, "a: "...)
		c = append(c, a, '\n')
		for i := 1; i <= 4; i++ {
			c = append(c, ("BenchmarkP 1 " + base + string([]byte{'0' + byte(i)}) + " ns/op\n")...)
		}
		return c
	}
	vndFile("f1.txt", mk(a1, ""))
	vndFile("f2.txt", mk(a2, "1"))
	run := func(extra ...string) string {
		var out, errOut bytes.Buffer
		args := append(append([]string{"-format", "csv", "-table", ".config"}, extra...), "f1.txt", "f2.txt")
		if err := benchstat(&out, &errOut, args); err != nil {
			return "ERROR " + err.Error()
		}
		return out.String() + "\n--\n" + errOut.String()
	}
	first := run()
	strict := run("-alpha", "0.001")
	again := run()
	vndReach("h15:main-history")
	vndAssert(again == first, "repeated-run-gives-the-same-output")
	if a1 == a2 {
		// one table comparing the two files
		vndAssert(strings.Contains(first, "%,p=0.029") && !strings.Contains(first, "~,p=0.029"), "default-threshold-shows-the-difference")
		vndAssert(strings.Contains(strict, "~,p=0.029"), "strict-threshold-hides-the-difference")
	}
	vndObserveStr("first", first)
}

// H14Assume: the statistics shown are those of the *unit's* assumption. Two input files
// declare unit metadata for "widgets" in a symbolic choice of layouts (no line; better=lower;
// assume=exact alone, after or before another pair on the same line, on a second line; a pair
// repeated from the first file before the new one). Exactly when some line declares
// assume=exact, the cells show the exact value (no interval, the plain delta, n=1); otherwise
// the median of one measurement with an unbounded interval and no significant difference.
func H14Assume() {
	l1 := []string{"", "Unit widgets better=lower\n", "Unit widgets assume=exact\n"}
	l2 := []string{"", "Unit widgets better=lower assume=exact\n", "Unit widgets assume=exact better=lower\n", "Unit widgets better=lower\n",
		"Unit widgets better=lower\nUnit widgets assume=exact\n", "Unit other assume=exact\n"}
	i1, i2 := vndChoice("first-file", len(l1)), vndChoice("second-file", len(l2))
	exact := i1 == 2 || i2 == 1 || i2 == 2 || i2 == 4
	after := vndBool("metadata-after-the-result")
	mk := func(unitLines, v string) []byte {
		if after {
			return []byte("BenchmarkP 1 " + v + " widgets\n" + unitLines)
		}
		return []byte(unitLines + "BenchmarkP 1 " + v + " widgets\n")
	}
	vndFile("f1.txt", mk(l1[i1], "5"))
	vndFile("f2.txt", mk(l2[i2], "7"))
	var out, errOut bytes.Buffer
	err := benchstat(&out, &errOut, []string{"-format", "csv", "f1.txt", "f2.txt"})
	vndReach("h14:assume")
	vndAssert(err == nil, "command-succeeds")
	row := ""
	for _, line := range strings.Split(out.String(), "\n") {
		if strings.HasPrefix(line, "P,") {
			row = line
		}
	}
	if exact {
		vndAssert(row == "P,5,0%,7,0%,+40.00%,n=1", "exact-unit-shows-exact-statistics")
		vndAssert(!strings.Contains(errOut.String(), "need >="), "exact-unit-has-no-sample-size-warnings")
	} else {
		vndAssert(row == "P,5,∞,7,∞,~,p=1.000 n=1", "unit-without-assumption-shows-distribution-free-statistics")
		vndAssert(strings.Contains(errOut.String(), "need >="), "small-samples-are-warned-about")
	}
	vndObserveStr("out", out.String())
}

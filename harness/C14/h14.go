package benchtab

// C14 / C15: benchstat puts each measurement in exactly one cell and reports
// its true statistics; the output depends only on the inputs.

import (
	"bytes"
	"math"
	"strings"

	"golang.org/x/perf/benchfmt"
	"golang.org/x/perf/benchmath"
	"golang.org/x/perf/benchproc"
)

// one input result; every dimension is a small symbolic choice or concrete
type h14Res struct {
	a, b, c byte // file configuration (0 = absent)
	nm, s   byte // base name byte, /s= value (0 = no sub-name)
	file    byte // .file label
	u1      int  // unit of the second measurement: 0 sec/op, 1 B/op, 2 allocs/op
}

var h14Units = []string{"sec/op", "B/op", "allocs/op"}
// distinct values of widely different magnitude (so that sums of their
// logarithms are sensitive to the order of addition)
var h14Vals = []float64{3, 5e9, 7e-9, 11e5, 13, 17e-3, 19e7, 23e-5}

func (r h14Res) build(i int) *benchfmt.Result {
	name := []byte{r.nm}
	if r.s != 0 {
		name = append(name, '/', 's', '=', r.s)
	}
	res := &benchfmt.Result{Name: benchfmt.Name(name), Iters: 1}
	for _, kv := range [][2]byte{{'a', r.a}, {'b', r.b}, {'c', r.c}} {
		if kv[1] != 0 {
			res.Config = append(res.Config, benchfmt.Config{Key: string(kv[:1]), Value: []byte{kv[1]}, File: true})
		}
	}
	res.SetConfig(".file", string([]byte{r.file}))
	res.Values = []benchfmt.Value{
		{Value: h14Vals[2*i], Unit: "sec/op", OrigValue: h14Vals[2*i] * 1e9, OrigUnit: "ns/op"},
		{Value: h14Vals[2*i+1], Unit: h14Units[r.u1]},
	}
	return res
}

// pick returns one of the options, symbolically if sym is set.
func pick(sym bool, name string, opts []byte, def byte) byte {
	if !sym {
		return def
	}
	c := vndByte(name)
	ok := false
	for _, o := range opts {
		ok = vndOr(ok, c == o)
	}
	vndAssume(ok)
	return c
}

// h14Symbolic makes result i; dims selects the symbolic dimensions:
// 1 a, 2 b, 4 c, 8 name, 16 sub-name, 32 file, 64 second unit.
func h14Symbolic(i, dims int) h14Res {
	r := h14Res{}
	r.a = pick(dims&1 != 0, "a", []byte{'x', 'y'}, 'x')
	r.b = pick(dims&2 != 0, "b", []byte{0, 'x'}, 0)
	r.c = pick(dims&4 != 0, "c", []byte{0, 'x'}, 0)
	r.nm = pick(dims&8 != 0, "nm", []byte{'P', 'Q'}, 'P')
	r.s = pick(dims&16 != 0, "s", []byte{0, '1', '2'}, 0)
	r.file = pick(dims&32 != 0, "file", []byte{'f', 'g', 'h'}, 'f')
	if dims&64 != 0 {
		r.u1 = vndChoice("u1", 3)
	} else {
		r.u1 = 1
	}
	return r
}

type h14Setup struct {
	filter                  *benchproc.Filter
	tableBy, rowBy, colBy   *benchproc.Projection
	residue                 *benchproc.Projection
	variant, filterVariant  int
}

var h14Filters = []string{"*", "-.unit:B/op -.unit:allocs/op", ".unit:(sec/op OR B/op) AND -.unit:B/op", ".unit:ns/op OR a:y"}

func h14Make(variant, fv int) *h14Setup {
	table, row, col, ignore := ".config", ".fullname", ".file", ""
	switch variant {
	case 1:
		row = ".name"
	case 2:
		col = "a"
	case 3:
		ignore = "b"
	case 4:
		row = ".name,/s" // a row key whose trailing field is missing for names without the sub-name
	case 5:
		table, row = "a", ".name" // residue of several fields: b, c and .fullname
	case 6:
		table = "a" // the residue is the rest of the file configuration alone (b, c): empty until such a key appears
	case 7:
		table, col = "a", ".config" // columns keyed by the rest of the file configuration, which may be empty at first
	}
	filter, err := benchproc.NewFilter(h14Filters[fv])
	if err != nil {
		panic(err)
	}
	var parser benchproc.ProjectionParser
	must := func(p *benchproc.Projection, err error) *benchproc.Projection {
		if err != nil {
			panic(err)
		}
		return p
	}
	tb, _, err := parser.ParseWithUnit(table, filter)
	if err != nil {
		panic(err)
	}
	s := &h14Setup{filter: filter, tableBy: tb, variant: variant, filterVariant: fv}
	s.rowBy = must(parser.Parse(row, filter))
	s.colBy = must(parser.Parse(col, filter))
	must(parser.Parse(ignore, filter))
	s.residue = parser.Residue()
	return s
}

// filterKeeps is the documented meaning of the filter variants.
func h14Keeps(fv int, r h14Res, m int) bool {
	unit := "sec/op"
	orig := "ns/op"
	if m == 1 {
		unit, orig = h14Units[r.u1], ""
	}
	is := func(u string) bool { return unit == u || orig == u }
	switch fv {
	case 1:
		return !is("B/op") && !is("allocs/op")
	case 2:
		return (is("sec/op") || is("B/op")) && !is("B/op")
	case 3:
		return vndOr(is("ns/op"), r.a == 'y')
	}
	return true
}

// sameCell is the documented grouping: table = unit + file configuration not
// otherwise projected/ignored, row and column as configured.
func h14SameCell(variant int, r1 h14Res, m1 int, r2 h14Res, m2 int) bool {
	u := func(r h14Res, m int) string {
		if m == 0 {
			return "sec/op"
		}
		return h14Units[r.u1]
	}
	same := u(r1, m1) == u(r2, m2)
	if variant != 5 && variant != 6 {
		same = vndAnd(same, r1.c == r2.c)
	}
	same = vndAnd(same, r1.a == r2.a) // table key (.config, or a alone) or column key (variant 2)
	if variant != 3 && variant != 5 && variant != 6 {
		same = vndAnd(same, r1.b == r2.b)
	}
	same = vndAnd(same, r1.nm == r2.nm)
	if variant != 1 && variant != 5 {
		same = vndAnd(same, r1.s == r2.s)
	}
	if variant != 2 {
		same = vndAnd(same, r1.file == r2.file)
	}
	return same
}

func h14Run(s *h14Setup, rs []h14Res, order []int) *Tables {
	b := NewBuilder(s.tableBy, s.rowBy, s.colBy, s.residue)
	for _, i := range order {
		res := rs[i].build(i)
		if ok, _ := s.filter.Apply(res); !ok {
			continue
		}
		b.Add(res)
	}
	th := benchmath.DefaultThresholds
	return b.ToTables(TableOpts{Confidence: 0.95, Thresholds: &th, Units: benchfmt.UnitMetadataMap{}})
}

type h14Loc struct {
	table *Table
	key   TableKey
	count int
}

func h14Find(t *Tables, v float64) h14Loc {
	var loc h14Loc
	for _, tb := range t.Tables {
		for k, cell := range tb.Cells {
			for _, x := range cell.Sample.Values {
				if x == v {
					loc.table, loc.key = tb, k
					loc.count++
				}
			}
		}
	}
	return loc
}

// h14WarnNames returns the key names of a "benchmarks vary in a, b" warning in sorted order
// (their order in the text follows the order in which the keys were first observed, which
// legitimately depends on the order of configuration blocks).
func h14WarnNames(w string) string {
	names := strings.Split(strings.TrimPrefix(w, "benchmarks vary in "), ", ")
	for i := 1; i < len(names); i++ {
		for j := i; j > 0 && names[j] < names[j-1]; j-- {
			names[j], names[j-1] = names[j-1], names[j]
		}
	}
	return strings.Join(names, ",")
}

// H14Cells: one cell per measurement, true statistics, residue warnings.
func H14Cells() {
	n := vndParam("results")
	dims := vndParam("dims")
	s := h14Make(vndParam("variant"), vndParam("filter"))
	rs := make([]h14Res, n)
	order := make([]int, n)
	for i := range rs {
		rs[i] = h14Symbolic(i, dims)
		order[i] = i
	}
	tabs := h14Run(s, rs, order)
	vndReach("h14:tables")
	locs := make([][2]h14Loc, n)
	for i := range rs {
		for m := 0; m < 2; m++ {
			locs[i][m] = h14Find(tabs, h14Vals[2*i+m])
			keep := h14Keeps(s.filterVariant, rs[i], m)
			if keep {
				vndAssert(locs[i][m].count == 1, "every-filtered-measurement-in-exactly-one-cell-once")
			} else {
				vndReach("h14:filtered-out")
				vndAssert(locs[i][m].count == 0, "measurements-rejected-by-the-filter-appear-nowhere")
			}
		}
	}
	for i := range rs {
		for m := 0; m < 2; m++ {
			for j := range rs {
				for l := 0; l < 2; l++ {
					a, b := locs[i][m], locs[j][l]
					if a.count != 1 || b.count != 1 || (i == j && m == l) {
						continue
					}
					shared := a.table == b.table && a.key == b.key
					vndAssert(shared == h14SameCell(s.variant, rs[i], m, rs[j], l), "two-measurements-share-a-cell-exactly-when-table-row-and-column-keys-agree")
				}
			}
		}
	}
	// statistics and warnings per cell
	for _, tb := range tabs.Tables {
		vndAssert(len(tb.Cols) > 0 && len(tb.Rows) > 0, "table-has-rows-and-columns")
		for k, cell := range tb.Cells {
			want := tb.Assumption.Summary(cell.Sample, 0.95)
			vndAssert(cell.Summary.Center == want.Center && cell.Summary.Lo == want.Lo && cell.Summary.Hi == want.Hi && cell.Summary.Confidence == want.Confidence, "cell-summary-is-the-assumptions-summary-of-its-sample")
			if k.Col != tb.Cols[0] {
				base, ok := tb.Cells[TableKey{k.Row, tb.Cols[0]}]
				if ok {
					vndReach("h14:compared")
					wc := tb.Assumption.Compare(base.Sample, cell.Sample)
					vndAssert(cell.Comparison.P == wc.P && cell.Comparison.N1 == wc.N1 && cell.Comparison.N2 == wc.N2 && cell.Comparison.Alpha == wc.Alpha, "cell-comparison-is-against-the-first-columns-cell-of-its-row")
					vndAssert(cell.Comparison.N1 == len(base.Sample.Values) && cell.Comparison.N2 == len(cell.Sample.Values), "comparison-reports-the-sizes-of-the-two-cells")
				} else {
					vndAssert(cell.Baseline == nil, "no-baseline-no-comparison")
				}
			} else {
				vndAssert(cell.Baseline == nil, "first-column-is-the-baseline")
			}
			// residue warning: exactly the unprojected, un-ignored keys in which merged results differ
			var members []h14Res
			for i := range rs {
				for m := 0; m < 2; m++ {
					if locs[i][m].count == 1 && locs[i][m].table == tb && locs[i][m].key == k {
						members = append(members, rs[i])
					}
				}
			}
			varyS, varyB, varyC := false, false, false
			for _, r := range members {
				varyS = vndOr(varyS, r.s != members[0].s)
				varyB = vndOr(varyB, r.b != members[0].b)
				varyC = vndOr(varyC, r.c != members[0].c)
			}
			warn := ""
			for _, w := range cell.Sample.Warnings {
				if strings.HasPrefix(w.Error(), "benchmarks vary in ") {
					warn = w.Error()
				}
			}
			if s.variant == 1 {
				// rows by .name: the sub-name is neither projected nor ignored
				vndAssert((warn != "") == varyS, "residue-warning-exactly-when-merged-results-differ-in-an-unprojected-key")
				if warn != "" {
					vndReach("h14:residue-warning")
					vndAssert(warn == "benchmarks vary in .fullname", "residue-warning-names-exactly-the-differing-keys")
				}
			} else if s.variant == 5 || s.variant == 6 {
				// table by a, rows by .name: b, c and the sub-name are in the residue
				want := ""
				for _, kv := range []struct {
					vary bool
					name string
				}{{varyS && s.variant == 5, ".fullname"}, {varyB, "b"}, {varyC, "c"}} { // sorted by name
					if kv.vary {
						if want != "" {
							want += ","
						}
						want += kv.name
					}
				}
				if strings.Contains(want, ",") {
					vndReach("h14:residue-warning-several")
				}
				vndAssert((warn == "") == (want == ""), "residue-warning-exactly-when-merged-results-differ-in-an-unprojected-key")
				if warn != "" {
					vndAssert(h14WarnNames(warn) == want, "residue-warning-names-exactly-the-differing-keys")
				}
			} else {
				vndAssert(warn == "", "no-residue-warning-otherwise")
			}
		}
	}
	vndObserveInt("ntables", len(tabs.Tables))
}

func h14CSV(t *Tables) string {
	var out, warn bytes.Buffer
	if err := t.ToCSV(&out, &warn); err != nil {
		return "ERROR " + err.Error()
	}
	return out.String() + "\n--warnings--\n" + warn.String()
}

// H15MapOrder: the CSV output does not depend on the runtime's map
// iteration order.
func H15MapOrder() {
	n := vndParam("results")
	dims := vndParam("dims")
	s1 := h14Make(vndParam("variant"), 0)
	s2 := h14Make(vndParam("variant"), 0)
	rs := make([]h14Res, n)
	order := make([]int, n)
	for i := range rs {
		rs[i] = h14Symbolic(i, dims)
		order[i] = i
	}
	ref := h14CSV(h14Run(s1, rs, order))
	vndMapOrderNondet(true)
	got := h14CSV(h14Run(s2, rs, order))
	vndMapOrderNondet(false)
	vndReach("h15:csv")
	if vndNative() {
		// natively the order is the runtime's random choice: repeat the run so
		// that a dependence on it shows
		for k := 0; k < 64 && got == ref; k++ {
			got = h14CSV(h14Run(h14Make(vndParam("variant"), 0), rs, order))
		}
	}
	vndAssert(got == ref, "csv-output-independent-of-map-iteration-order")
	vndObserveStr("csv", ref)
}

// H15Permute: permuting result lines never changes the content of a cell.
func H15Permute() {
	n := vndParam("results")
	dims := vndParam("dims")
	v := vndParam("variant")
	s1, s2 := h14Make(v, 0), h14Make(v, 0)
	rs := make([]h14Res, n)
	order := make([]int, n)
	for i := range rs {
		rs[i] = h14Symbolic(i, dims)
		order[i] = i
	}
	perm := append([]int(nil), order...)
	for i := n - 1; i > 0; i-- {
		j := vndChoice("perm", i+1)
		perm[i], perm[j] = perm[j], perm[i]
	}
	t1, t2 := h14Run(s1, rs, order), h14Run(s2, rs, perm)
	vndReach("h15:permuted")
	for i := range rs {
		for m := 0; m < 2; m++ {
			a, b := h14Find(t1, h14Vals[2*i+m]), h14Find(t2, h14Vals[2*i+m])
			vndAssert(a.count == b.count, "same-measurements-present")
			if a.count != 1 || b.count != 1 {
				continue
			}
			ca, cb := a.table.Cells[a.key], b.table.Cells[b.key]
			same := len(ca.Sample.Values) == len(cb.Sample.Values)
			for k := 0; same && k < len(ca.Sample.Values); k++ {
				same = ca.Sample.Values[k] == cb.Sample.Values[k]
			}
			vndAssert(same, "cell-content-independent-of-line-order")
			vndAssert(ca.Summary.Center == cb.Summary.Center, "cell-summary-independent-of-line-order")
			wa, wb := "", ""
			for _, w := range ca.Sample.Warnings {
				wa += h14WarnNames(w.Error()) + "|"
			}
			for _, w := range cb.Sample.Warnings {
				wb += h14WarnNames(w.Error()) + "|"
			}
			vndAssert(wa == wb, "cell-warnings-independent-of-line-order")
		}
	}
}

// H15Procs: the output is the same for every GOMAXPROCS, and the cell computation terminates
// for every GOMAXPROCS (the fan-out is limited by a channel whose capacity is derived from
// it). Goroutines are sequentialised in the engine, so this says nothing about
// interleavings; it does decide whether the limiter can block the spawning goroutine forever.
func H15Procs() {
	n := vndParam("results")
	dims := vndParam("dims")
	rs := make([]h14Res, n)
	order := make([]int, n)
	for i := range rs {
		rs[i] = h14Symbolic(i, dims)
		order[i] = i
	}
	ref := h14CSV(h14Run(h14Make(0, 0), rs, order))
	procs := []int{1, 2, 3, 8}[vndChoice("procs", 4)]
	vndGOMAXPROCS(procs)
	got := h14CSV(h14Run(h14Make(0, 0), rs, order))
	vndGOMAXPROCS(4)
	vndReach("h15:procs")
	vndAssert(got == ref, "output-independent-of-gomaxprocs")
}

// H15Rows: a table with several rows. The values differ widely in magnitude, so that a
// geometric mean accumulated in another order differs in its last digits; with every small
// map iterated in an arbitrary order the CSV output (which prints the summary row at full
// precision) is byte-identical.
func H15Rows() {
	n := vndParam("rows")
	rs := make([]h14Res, n)
	order := make([]int, n)
	for i := range rs {
		rs[i] = h14Res{a: 'x', nm: 'P', s: byte('1' + i), file: 'f', u1: 0} // both measurements in sec/op: one table
		order[i] = i
	}
	ref := h14CSV(h14Run(h14Make(0, 0), rs, order))
	vndMapOrderNondet(true)
	got := h14CSV(h14Run(h14Make(0, 0), rs, order))
	vndMapOrderNondet(false)
	vndReach("h15:rows")
	if vndNative() {
		for k := 0; k < 64 && got == ref; k++ {
			got = h14CSV(h14Run(h14Make(0, 0), rs, order))
		}
	}
	vndAssert(got == ref, "csv-output-independent-of-map-iteration-order")
	vndObserveStr("csv", ref)
}

// H15NaN: a cell's sample and summary do not depend on the order in which its measurements
// arrived, also when one of them is NaN (legal input: a custom metric may report it).
// Case-split family: the multiset is concrete, the solver picks the arrival order.
func H15NaN() {
	n := vndParam("n")
	pool := []float64{5, math.NaN(), 1, 2, 6, 7}[:n]
	ref := benchmath.NewSample(append([]float64(nil), pool...), &benchmath.DefaultThresholds)
	perm := append([]float64(nil), pool...)
	for i := n - 1; i > 0; i-- {
		j := vndChoice("perm", i+1)
		perm[i], perm[j] = perm[j], perm[i]
	}
	got := benchmath.NewSample(perm, &benchmath.DefaultThresholds)
	vndReach("h15:nan")
	same := len(ref.Values) == len(got.Values)
	for k := 0; same && k < len(ref.Values); k++ {
		same = math.Float64bits(ref.Values[k]) == math.Float64bits(got.Values[k])
	}
	vndAssert(same, "cell-content-independent-of-line-order")
	sa, sb := benchmath.AssumeNothing.Summary(ref, 0.95), benchmath.AssumeNothing.Summary(got, 0.95)
	eq := func(a, b float64) bool { return a == b || (a != a && b != b) }
	vndAssert(eq(sa.Center, sb.Center) && eq(sa.Lo, sb.Lo) && eq(sa.Hi, sb.Hi), "cell-summary-independent-of-line-order")
}

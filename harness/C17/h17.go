package benchstat

// C17: the legacy benchstat library's tables follow its documented statistics.

import (
	"bytes"
	"errors"
	"math"
	"strconv"
	"strings"

	"golang.org/x/perf/internal/stats"
	"golang.org/x/perf/storage/benchfmt"
)

// values handed out by the number-parser stub, in parse order
var h17Vals []float64
var h17Next int

// h17StubParseFloat replaces strconv.ParseFloat in the engine: measurement
// texts parse to arbitrary (harness-chosen symbolic) floats.
func h17StubParseFloat(s string, bitSize int) (float64, error) {
	v := h17Vals[h17Next]
	h17Next++
	return v, nil
}

func h17Result(name string, v float64, unit string) *benchfmt.Result {
	text := "V"
	if vndNative() {
		text = strconv.FormatFloat(v, 'g', -1, 64)
	}
	h17Vals = append(h17Vals, v)
	return &benchfmt.Result{Labels: benchfmt.Labels{}, NameLabels: benchfmt.Labels{}, Content: "Benchmark" + name + " 1 " + text + " " + unit}
}

func h17Bounded(v float64) bool {
	return vndAnd(v == v, vndAnd(v <= 1e300, v >= -1e300))
}

var h17Units = []string{"ns/op", "MB/s", "x-MB/s", "B/op", "foo"}
var h17ErrOther = errors.New("some other failure")

// H17Delta: two configurations, one benchmark, one value each; the test's
// verdict and the threshold are arbitrary.
func H17Delta() {
	h17Vals, h17Next = nil, 0
	unit := h17Units[vndParam("unit")]
	// the old value is one of a few concrete numbers (a symbolic/symbolic
	// division is beyond the solvers); the new value is arbitrary
	vo := []float64{4, 0.5, -2, 0, 1e-300}[vndParam("old")]
	vn := vndFloat64("new")
	vndAssume(h17Bounded(vn))
	p := vndFloat64("p")
	vndAssume(vndAnd(p >= 0, p <= 1))
	alpha := vndFloat64("alpha")
	vndAssume(vndAnd(alpha >= 0, alpha <= 1))
	var terr error
	switch vndChoice("err", 5) {
	case 1:
		terr = stats.ErrZeroVariance
	case 2:
		terr = stats.ErrSampleSize
	case 3:
		terr = stats.ErrSamplesEqual
	case 4:
		terr = h17ErrOther
	}
	c := &Collection{Alpha: alpha, DeltaTest: func(old, new *Metrics) (float64, error) {
		if terr != nil {
			return -1, terr
		}
		return p, nil
	}}
	c.AddResults("old", []*benchfmt.Result{h17Result("X", vo, unit)})
	c.AddResults("new", []*benchfmt.Result{h17Result("X", vn, unit)})
	tables := c.Tables()
	vndReach("h17:delta")
	vndAssert(len(tables) == 1 && len(tables[0].Rows) == 1 && len(tables[0].Rows[0].Metrics) == 2, "one-table-one-row-two-columns")
	if len(tables) != 1 || len(tables[0].Rows) != 1 || len(tables[0].Rows[0].Metrics) != 2 {
		return
	}
	row := tables[0].Rows[0]
	mo, mn := row.Metrics[0], row.Metrics[1]
	same := func(a, b float64) bool { return a == b }
	vndAssert(same(mo.Min, vo) && same(mo.Mean, vo) && same(mo.Max, vo) && same(mn.Min, vn) && same(mn.Mean, vn) && same(mn.Max, vn), "single-value-min-mean-max-are-the-value")
	effAlpha := vndIteF64(alpha == 0, 0.05, alpha)
	significant := vndAnd(terr == nil, p < effAlpha)
	vndAssert((row.Delta != "~") == significant, "delta-shown-exactly-when-p-below-alpha")
	if row.Delta != "~" {
		vndReach("h17:significant")
		if vo == vn {
			vndAssert(row.Delta == "0.00%" && row.Change == 0, "equal-means-zero-delta")
		} else {
			// means equal the single values (asserted above); use them so that the
			// reference is the same float expression
			pct := ((mn.Mean / mo.Mean) - 1.0) * 100.0
			vndAssert(row.PctDelta == pct || (row.PctDelta != row.PctDelta && pct != pct), "delta-is-new-over-old-minus-one-in-percent")
			higherBetter := tables[0].Metric == "speed"
			wantChange := -1
			if (pct > 0) == higherBetter && pct != 0 {
				wantChange = +1
			}
			if pct == 0 || pct != pct {
				// degenerate ratio (rounding to 0 / NaN): direction unspecified
				wantChange = row.Change
			}
			vndAssert(row.Change == wantChange, "change-flag-follows-the-metrics-better-direction")
		}
	} else {
		vndAssert(row.PctDelta == 0 && row.Change == 0, "insignificant-rows-carry-no-delta")
	}
	switch terr {
	case stats.ErrZeroVariance:
		vndAssert(row.Note == "(zero variance)", "note-zero-variance")
	case stats.ErrSampleSize:
		vndAssert(row.Note == "(too few samples)", "note-too-few-samples")
	case stats.ErrSamplesEqual:
		vndAssert(row.Note == "(all equal)", "note-all-equal")
	case h17ErrOther:
		vndAssert(row.Note == "(some other failure)", "note-other-error")
	default:
		vndAssert(row.Note != "", "note-reports-p-and-sizes")
	}
	vndAssert((tables[0].Metric == "speed") == (unit == "MB/s"), "only-the-speed-metric-is-higher-better")
}

// H17Order: three benchmarks, two configurations; rows follow first
// appearance or the stable sort by the given order.
func H17Order() {
	h17Vals, h17Next = nil, 0
	ord := vndParam("order")
	names := []string{"C", "A", "B"}
	var olds, news []*benchfmt.Result
	sig := make([]bool, 3)
	// results are parsed config by config: create them in that order so that
	// the parser stub hands out the values in step
	for i, nm := range names {
		olds = append(olds, h17Result(nm, []float64{4, 8, 16}[i], "ns/op"))
	}
	for i, nm := range names {
		vn := vndFloat64("new")
		vndAssume(vndAnd(vn >= 1, vn <= 1e6))
		sig[i] = vndBool("significant")
		news = append(news, h17Result(nm, vn, "ns/op"))
	}
	c := &Collection{DeltaTest: func(old, new *Metrics) (float64, error) {
		// significance is decided per benchmark by the harness
		for i := range names {
			if len(old.Values) == 1 && old.Values[0] == h17Vals[i] && sig[i] {
				return 0.001, nil
			}
		}
		return 0.9, nil
	}}
	switch ord {
	case 1:
		c.Order = ByName
	case 2:
		c.Order = Reverse(ByName)
	case 3:
		c.Order = ByDelta
	case 4:
		c.Order = Reverse(ByDelta)
	}
	c.AddResults("old", olds)
	c.AddResults("new", news)
	tables := c.Tables()
	vndReach("h17:order")
	if len(tables) != 1 || len(tables[0].Rows) != 3 {
		vndAssert(false, "one-table-three-rows")
		return
	}
	t := tables[0]
	first := func(r *Row) int { // first-appearance index
		for i, nm := range names {
			if r.Benchmark == nm {
				return i
			}
		}
		return -1
	}
	rowOrder := ""
	for _, r := range t.Rows {
		rowOrder += r.Benchmark + r.Delta[:1]
	}
	vndObserveStr("rows", rowOrder)
	seen := [3]bool{}
	for _, r := range t.Rows {
		k := first(r)
		vndAssert(k >= 0 && !seen[k], "rows-are-a-permutation-of-the-benchmarks")
		if k >= 0 {
			seen[k] = true
		}
	}
	if ord == 0 {
		for i, r := range t.Rows {
			vndAssert(first(r) == i, "rows-in-first-appearance-order")
		}
		return
	}
	key := func(r *Row) float64 { return math.Abs(r.PctDelta) * float64(r.Change) }
	less := func(a, b *Row) bool {
		switch ord {
		case 1:
			return a.Benchmark < b.Benchmark
		case 2:
			return b.Benchmark < a.Benchmark
		case 3:
			return key(a) < key(b)
		}
		return key(b) < key(a)
	}
	for i := 0; i+1 < len(t.Rows); i++ {
		a, b := t.Rows[i], t.Rows[i+1]
		vndAssert(!less(b, a), "rows-sorted-by-the-given-order")
		if !less(a, b) && !less(b, a) {
			vndReach("h17:tie")
			vndAssert(first(a) < first(b), "sort-is-stable")
		}
	}
}

// H17Fence: values within 1.5 interquartile ranges of the quartiles are
// kept, in input order; min/mean/max are those of the kept values.
func H17Fence() {
	h17Vals, h17Next = nil, 0
	base := []float64{16, 16, 16, 16, 16, 16, 16, 16}
	if vndParam("shape") == 1 {
		base = []float64{10, 12, 14, 16, 18, 20}
	}
	a, b := vndFloat64("a"), vndFloat64("b")
	vndAssume(vndAnd(vndAnd(a >= -1e6, a <= 1e6), vndAnd(b >= -1e6, b <= 1e6)))
	vals := append(append([]float64{a}, base...), b)
	m := &Metrics{Unit: "allocs/op", Values: append([]float64(nil), vals...)}
	m.computeStats()
	vndReach("h17:fence")
	s := stats.Sample{Xs: append([]float64(nil), vals...)}
	q1, q3 := s.Percentile(0.25), s.Percentile(0.75)
	lo, hi := q1-1.5*(q3-q1), q3+1.5*(q3-q1)
	var want []float64
	for _, v := range vals {
		if lo <= v && v <= hi {
			want = append(want, v)
		}
	}
	if len(want) < len(vals) {
		vndReach("h17:outlier-removed")
	}
	ok := len(m.RValues) == len(want)
	for i := 0; ok && i < len(want); i++ {
		ok = m.RValues[i] == want[i]
	}
	vndAssert(ok, "retained-values-are-exactly-those-within-the-fences-in-input-order")
	if ok && len(want) > 0 {
		mn, mx := want[0], want[0]
		for _, v := range want {
			mn = vndIteF64(v < mn, v, mn)
			mx = vndIteF64(v > mx, v, mx)
		}
		vndAssert(m.Min == mn && m.Max == mx, "min-max-of-the-retained-values")
	}
}

// H17ConstMean: a sample of equal values has min = mean = max = that value
// (min <= mean <= max leaves no other choice).
func H17ConstMean() {
	n := vndParam("n")
	v := vndFloat64("v")
	vndAssume(h17Bounded(v))
	vals := make([]float64, n)
	for i := range vals {
		vals[i] = v
	}
	m := &Metrics{Unit: "ns/op", Values: vals}
	m.computeStats()
	vndReach("h17:const")
	vndAssert(len(m.RValues) == n, "constant-sample-keeps-every-value")
	vndAssert(m.Min == v && m.Max == v, "constant-sample-min-max")
	vndAssert(m.Mean == v, "constant-sample-mean-between-min-and-max")
}

// H17ConstMeanValues: the same for a concrete family of values that are not exactly
// representable (decided by evaluation alone, so it does not depend on the solver's
// floating-point budget; the solver picks the member).
func H17ConstMeanValues() {
	n := vndParam("n")
	v := []float64{0.1, 0.7, 12.3, 1e-310, 3.3e300, -0.3}[vndChoice("value", 6)]
	vals := make([]float64, n)
	for i := range vals {
		vals[i] = v
	}
	m := &Metrics{Unit: "ns/op", Values: vals}
	m.computeStats()
	vndReach("h17:const-values")
	vndAssert(len(m.RValues) == n, "constant-sample-keeps-every-value")
	vndAssert(m.Min == v && m.Max == v, "constant-sample-min-max")
	vndAssert(m.Mean == v, "constant-sample-mean-between-min-and-max")
}

// H17Groups: with SplitBy, every (group, benchmark) metric holds exactly the
// values of the results carrying that label and name, in input order.
func H17Groups() {
	h17Vals, h17Next = nil, 0
	n := vndParam("results")
	pk := make([]byte, n)
	nm := make([]byte, n)
	var rs []*benchfmt.Result
	for i := 0; i < n; i++ {
		pk[i] = []byte{'a', 'b'}[vndChoice("pkg", 2)]
		nm[i] = []byte{'X', 'Y'}[vndChoice("name", 2)]
		r := h17Result(string(nm[i:i+1]), float64(3+2*i), "ns/op")
		r.Labels["pkg"] = string(pk[i : i+1])
		rs = append(rs, r)
	}
	c := &Collection{SplitBy: []string{"pkg"}}
	c.AddResults("only", rs)
	vndReach("h17:groups")
	for _, g := range []byte{'a', 'b'} {
		for _, b := range []byte{'X', 'Y'} {
			var want []float64
			for i := 0; i < n; i++ {
				if pk[i] == g && nm[i] == b {
					want = append(want, float64(3+2*i))
				}
			}
			m := c.Metrics[Key{Config: "only", Group: "pkg:" + string([]byte{g}), Benchmark: string([]byte{b}), Unit: "ns/op"}]
			if len(want) == 0 {
				vndAssert(m == nil, "no-metric-without-values")
				continue
			}
			ok := m != nil && len(m.Values) == len(want)
			for i := 0; ok && i < len(want); i++ {
				ok = m.Values[i] == want[i]
			}
			vndAssert(ok, "group-metric-holds-exactly-its-results-values-in-input-order")
		}
	}
}

// H17Stable: a table of n >= 13 rows (the size at which the standard library's
// unstable sort stops being an insertion sort) in which the insignificant rows
// all tie (delta key 0) and are interleaved with significant rows of distinct
// deltas of both signs: after sorting by delta the rows are ordered by key and
// the tied rows are still in first-appearance order. The new value of one
// significant row is arbitrary.
func H17Stable() {
	h17Vals, h17Next = nil, 0
	n := vndParam("rows")
	ord := vndParam("order")
	pat := vndParam("pattern")
	name := func(i int) string { return string([]byte{'a' + byte(i/10), '0' + byte(i%10)}) }
	sig := make([]bool, n)
	for i := range sig {
		switch pat {
		case 0:
			sig[i] = i%3 == 0
		case 1:
			sig[i] = i%2 == 1
		default:
			sig[i] = i == 1 || i == n-1
		}
	}
	var olds, news []*benchfmt.Result
	for i := 0; i < n; i++ {
		olds = append(olds, h17Result(name(i), float64(8+i), "ns/op"))
	}
	sym := 0
	for i := 0; i < n; i++ {
		v := float64(9 + 2*i)
		if i%4 == 0 {
			v = float64(8+i) / 2
		}
		if sig[i] && sym < 1 {
			sym++
			v = vndFloat64("new")
			vndAssume(vndAnd(v >= 1, v <= 1e6))
		}
		news = append(news, h17Result(name(i), v, "ns/op"))
	}
	c := &Collection{DeltaTest: func(old, new *Metrics) (float64, error) {
		for i := 0; i < n; i++ {
			if len(old.Values) == 1 && old.Values[0] == h17Vals[i] && sig[i] {
				return 0.001, nil
			}
		}
		return 0.9, nil
	}}
	if ord == 3 {
		c.Order = ByDelta
	} else {
		c.Order = Reverse(ByDelta)
	}
	c.AddResults("old", olds)
	c.AddResults("new", news)
	tables := c.Tables()
	vndReach("h17:stable")
	if len(tables) != 1 || len(tables[0].Rows) != n {
		vndAssert(false, "one-table-n-rows")
		return
	}
	t := tables[0]
	first := func(r *Row) int {
		for i := 0; i < n; i++ {
			if r.Benchmark == name(i) {
				return i
			}
		}
		return -1
	}
	key := func(r *Row) float64 { return math.Abs(r.PctDelta) * float64(r.Change) }
	less := func(a, b *Row) bool {
		if ord == 3 {
			return key(a) < key(b)
		}
		return key(b) < key(a)
	}
	got := ""
	for i := 0; i+1 < len(t.Rows); i++ {
		a, b := t.Rows[i], t.Rows[i+1]
		vndAssert(!less(b, a), "rows-sorted-by-the-given-order")
		if !less(a, b) && !less(b, a) {
			vndReach("h17:tie")
			vndAssert(first(a) < first(b), "sort-is-stable")
		}
	}
	for _, r := range t.Rows {
		got += r.Benchmark
	}
	vndObserveStr("rows", got)
}

// H17Notes: when the test yields a p-value the note reports it together with the RETAINED
// sample sizes. Both configurations have six spread values plus one more value (arbitrary in the
// old configuration, an outlier in the new one) that may fall outside the 1.5-IQR fences; the p-value comes from the hook.
func H17Notes() {
	h17Vals, h17Next = nil, 0
	a := vndFloat64("a")
	vndAssume(vndAnd(a >= -1e6, a <= 1e6))
	oldVals := []float64{10, 12, 14, 16, 18, 20, a}
	newVals := []float64{11, 13, 15, 17, 19, 21, 1000} // 1000 is outside the fences
	var olds, news []*benchfmt.Result
	for _, v := range oldVals {
		olds = append(olds, h17Result("X", v, "ns/op"))
	}
	for _, v := range newVals {
		news = append(news, h17Result("X", v, "ns/op"))
	}
	p := []float64{0.5, 0.001}[vndChoice("p", 2)]
	c := &Collection{DeltaTest: func(old, new *Metrics) (float64, error) { return p, nil }}
	c.AddResults("old", olds)
	c.AddResults("new", news)
	tables := c.Tables()
	vndReach("h17:notes")
	if len(tables) != 1 || len(tables[0].Rows) != 1 {
		vndAssert(false, "one-table-one-row")
		return
	}
	retained := func(vals []float64) int {
		s := stats.Sample{Xs: append([]float64(nil), vals...)}
		q1, q3 := s.Percentile(0.25), s.Percentile(0.75)
		lo, hi := q1-1.5*(q3-q1), q3+1.5*(q3-q1)
		n := 0
		for _, v := range vals {
			n += vndIteInt(vndAnd(lo <= v, v <= hi), 1, 0)
		}
		return n
	}
	n1, n2 := vndConcretize(retained(oldVals)), vndConcretize(retained(newVals))
	if n1 < 7 || n2 < 7 {
		vndReach("h17:notes-outlier")
	}
	ps := "0.500"
	if p == 0.001 {
		ps = "0.001"
	}
	want := "(p=" + ps + " n=" + string([]byte{'0' + byte(n1)}) + "+" + string([]byte{'0' + byte(n2)}) + ")"
	vndAssert(tables[0].Rows[0].Note == want, "note-reports-p-and-retained-sample-sizes")
}

// H17Text: the text rendering reports every benchmark's statistics under the heading of the
// configuration they belong to. Three configurations, three benchmarks; which benchmark was
// measured under which configuration is arbitrary (a blank cell stands for a missing one).
func H17Text() {
	h17Vals, h17Next = nil, 0
	names := []string{"A", "B", "C"}
	cfgs := []string{"c0", "c1", "c2"}
	var present [3][3]bool
	perCfg := make([][]*benchfmt.Result, 3)
	for ci := range cfgs {
		for bi, nm := range names {
			present[bi][ci] = vndBool("present")
			if ci == 0 && bi == 0 {
				vndAssume(present[bi][ci]) // the first benchmark fixes the order of appearance
			}
			if present[bi][ci] {
				perCfg[ci] = append(perCfg[ci], h17Result(nm, float64(100*(bi+1)+10*ci+1), "ns/op"))
			}
		}
	}
	c := &Collection{}
	for ci, name := range cfgs {
		vndAssume(len(perCfg[ci]) > 0)
		c.AddResults(name, perCfg[ci])
	}
	tables := c.Tables()
	var buf bytes.Buffer
	FormatText(&buf, tables)
	vndReach("h17:text")
	lines := strings.Split(strings.TrimRight(buf.String(), "\n"), "\n")
	if len(tables) != 1 || len(lines) != 1+len(tables[0].Rows) {
		vndAssert(false, "one-table-one-line-per-row")
		return
	}
	// column start offsets from the heading line
	head := lines[0]
	start := make([]int, 3)
	for ci, name := range cfgs {
		start[ci] = strings.Index(head, name)
		vndAssert(start[ci] > 0, "every-configuration-has-a-heading")
		if start[ci] <= 0 {
			return
		}
	}
	for ri, row := range tables[0].Rows {
		line := []rune(lines[1+ri])
		bi := int(row.Benchmark[0] - 'A')
		for ci := range cfgs {
			end := len(line)
			if ci+1 < 3 {
				end = start[ci+1] - 2
			}
			cell := ""
			if start[ci] < len(line) {
				if end > len(line) {
					end = len(line)
				}
				cell = strings.TrimSpace(string(line[start[ci]:end]))
			}
			want := ""
			if present[bi][ci] {
				want = row.Metrics[ci].Format(row.Scaler)
			}
			vndAssert(cell == want, "text-cell-under-the-heading-of-its-configuration")
		}
	}
	vndObserveStr("text", buf.String())
}

// H17Builtin: the library's built-in tests (UTest, TTest) judge the RETAINED values (those
// inside the outlier fences), and report empty, single-value and all-equal samples as the
// documented errors, not as numbers. Values are chosen by the solver from short lists
// (concrete executions: the tests' numerics are C11/C12's subject); the reference is the
// statistics package applied to the retained values.
func H17Builtin() {
	mk := func(vals []float64) *Metrics {
		m := &Metrics{Unit: "ns/op", Values: append([]float64(nil), vals...)}
		m.computeStats()
		return m
	}
	shapes := [][]float64{
		{10, 11, 12, 13, 14, 15, 16, 100}, // one value outside the fences
		{10, 11, 12, 13, 14, 15, 16, 17},
		{5, 5, 5, 5},
		{7},
		{},
		{20, 21, 22, 23, 24, 25, 26, 27},
	}
	a := shapes[vndChoice("old", len(shapes))]
	b := shapes[vndChoice("new", len(shapes))]
	old, new := mk(a), mk(b)
	vndReach("h17:builtin")
	if len(old.RValues) < len(old.Values) || len(new.RValues) < len(new.Values) {
		vndReach("h17:builtin-outlier")
	}
	pu, eu := UTest(old, new)
	wu, werr := stats.MannWhitneyUTest(old.RValues, new.RValues, stats.LocationDiffers)
	if werr != nil {
		vndReach("h17:builtin-error")
		vndAssert(eu != nil && pu == -1, "u-test-reports-degenerate-samples-as-errors")
		switch werr {
		case stats.ErrSampleSize:
			vndAssert(eu == ErrSampleSize, "u-test-error-kind")
		case stats.ErrSamplesEqual:
			vndAssert(eu == ErrSamplesEqual, "u-test-error-kind")
		}
	} else {
		vndAssert(eu == nil && pu == wu.P, "u-test-judges-the-retained-values")
	}
	pt, et := TTest(old, new)
	wt, werr := stats.TwoSampleWelchTTest(stats.Sample{Xs: old.RValues}, stats.Sample{Xs: new.RValues}, stats.LocationDiffers)
	if werr != nil {
		vndAssert(et != nil && pt == -1, "t-test-reports-degenerate-samples-as-errors")
		switch werr {
		case stats.ErrSampleSize:
			vndAssert(et == ErrSampleSize, "t-test-error-kind")
		case stats.ErrZeroVariance:
			vndAssert(et == ErrZeroVariance, "t-test-error-kind")
		}
	} else {
		vndAssert(et == nil && pt == wt.P, "t-test-judges-the-retained-values")
	}
	pn, en := NoDeltaTest(old, new)
	vndAssert(pn == -1 && en == nil, "no-test-gives-no-p-value")
}

// H17Twice: asking a collection for its tables twice gives the same tables: the retained
// values are those inside the fences, each once, however often the statistics are computed.
func H17Twice() {
	h17Vals, h17Next = nil, 0
	a := vndFloat64("a")
	vndAssume(vndAnd(a >= -1e6, a <= 1e6))
	var olds, news []*benchfmt.Result
	for _, v := range []float64{10, 12, 14, 16, 18, 20, a} {
		olds = append(olds, h17Result("X", v, "ns/op"))
	}
	for _, v := range []float64{11, 13, 15, 17, 19, 21, 1000} {
		news = append(news, h17Result("X", v, "ns/op"))
	}
	c := &Collection{DeltaTest: func(old, new *Metrics) (float64, error) { return 0.5, nil }}
	c.AddResults("old", olds)
	c.AddResults("new", news)
	t1 := c.Tables()
	if len(t1) != 1 || len(t1[0].Rows) != 1 {
		vndAssert(false, "one-table-one-row")
		return
	}
	note1 := t1[0].Rows[0].Note
	n1 := len(t1[0].Rows[0].Metrics[0].RValues)
	t2 := c.Tables()
	vndReach("h17:twice")
	vndAssert(len(t2) == 1 && len(t2[0].Rows) == 1, "one-table-one-row")
	if len(t2) != 1 || len(t2[0].Rows) != 1 {
		return
	}
	vndAssert(t2[0].Rows[0].Note == note1, "tables-computed-twice-are-the-same")
	vndAssert(len(t2[0].Rows[0].Metrics[0].RValues) == n1, "retained-values-counted-once")
	vndAssert(n1 <= 7, "retained-values-counted-once")
}

// H17Geomean: the geomean row is the geometric mean of the non-zero means of *every*
// benchmark of the configuration, also of those that have no row of their own because
// the other configuration lacks them. Three benchmarks, each present in the old, the new or
// both configurations (symbolic); one mean is zero and is left out.
func H17Geomean() {
	h17Vals, h17Next = nil, 0
	names := []string{"A", "B", "C"}
	// scale 1: ordinary values; the others: means whose product over- or underflows although
	// their geometric mean is representable
	scale := []float64{1, 1e150, 1e-150}[vndParam("scale")]
	vals := [2][]float64{{100 * scale, 400 * scale, 1600 * scale}, {200 * scale, 0, 3200 * scale}}
	var present [2][3]bool
	var rs [2][]*benchfmt.Result
	for k := 0; k < 2; k++ { // results are parsed configuration by configuration
		for i := range names {
			present[k][i] = vndBool("present")
			if present[k][i] {
				rs[k] = append(rs[k], h17Result(names[i], vals[k][i], "ns/op"))
			}
		}
	}
	c := &Collection{AddGeoMean: true}
	nconf := 0
	var sumLog [2]float64
	var cnt [2]int
	for k, cfg := range []string{"old", "new"} {
		if len(rs[k]) == 0 {
			continue
		}
		c.AddResults(cfg, rs[k])
		sumLog[nconf], cnt[nconf] = 0, 0
		for i := range names {
			if present[k][i] && vals[k][i] != 0 {
				sumLog[nconf] += math.Log(vals[k][i])
				cnt[nconf]++
			}
		}
		nconf++
	}
	tables := c.Tables()
	vndReach("h17:geomean")
	shown := false // a benchmark has a row when no configuration lacks it
	for i := range names {
		shown = shown || (present[0][i] && present[1][i]) || (nconf == 1 && (present[0][i] || present[1][i]))
	}
	vndAssert((len(tables) > 0) == shown, "table-exactly-when-some-benchmark-has-a-row")
	if len(tables) == 0 {
		return
	}
	vndAssert(len(tables) == 1, "one-unit-one-table")
	var geo *Row
	for _, r := range tables[0].Rows {
		if r.Benchmark == "[Geo mean]" {
			vndAssert(geo == nil, "one-geomean-row")
			geo = r
		}
	}
	maxCount := cnt[0]
	if nconf == 2 && cnt[1] > maxCount {
		maxCount = cnt[1]
	}
	vndAssert((geo != nil) == (maxCount > 1), "geomean-row-exactly-when-more-than-one-benchmark-contributes")
	if geo == nil {
		return
	}
	vndReach("h17:geomean-row")
	vndAssert(len(geo.Metrics) == nconf, "geomean-per-configuration")
	close := func(got, want float64) bool { return math.Abs(got-want) <= 1e-9*math.Abs(want) }
	var g [2]float64
	for k := 0; k < nconf && k < len(geo.Metrics); k++ {
		if cnt[k] == 0 {
			vndAssert(geo.Metrics[k].Mean == 0, "no-contribution-no-geomean")
			continue
		}
		g[k] = math.Exp(sumLog[k] / float64(cnt[k]))
		vndAssert(close(geo.Metrics[k].Mean, g[k]), "geomean-is-the-geometric-mean-of-the-non-zero-means")
	}
	if nconf == 2 && cnt[0] > 0 && cnt[1] > 0 {
		vndAssert(close(geo.PctDelta, (g[1]/g[0]-1)*100) || (g[1] == g[0] && math.Abs(geo.PctDelta) < 1e-9), "geomean-delta-is-the-ratio-of-the-geomeans")
	} else {
		vndAssert(geo.Delta == "", "no-geomean-delta-without-two-geomeans")
	}
}

package benchfmt

// C03: numbers are read as correctly rounded float64 values and exact
// integers, bit for bit what the standard library's parser returns.

import (
	"bytes"
	"math"
	"math/bits"
	"strconv"
)

func h03NotSpace(c byte) bool {
	sp := vndOr(vndOr(c == ' ', c == '\t'), vndOr(vndOr(c == '\n', c == '\v'), vndOr(c == '\f', c == '\r')))
	return vndAnd(!sp, c < 0x80)
}

// h03ReadValue reads "BenchmarkX 1 <field> u" and returns the reported
// value or the syntax error.
func h03ReadValue(field []byte) (v float64, isErr bool, ok bool) {
	line := append([]byte("BenchmarkX 1 "), field...)
	line = append(line, " u\n"...)
	r := NewReader(bytes.NewReader(line), "f")
	if !r.Scan() {
		return 0, false, false
	}
	switch rec := r.Result().(type) {
	case *Result:
		if len(rec.Values) != 1 || rec.Values[0].Unit != "u" {
			return 0, false, false
		}
		return rec.Values[0].Value, false, true
	case *SyntaxError:
		_, ln := rec.Pos()
		return 0, true, ln == 1
	}
	return 0, false, false
}

func h03SameBits(a, b float64) bool {
	return vndOr(math.Float64bits(a) == math.Float64bits(b), vndAnd(a != a, b != b))
}

func h03Check(field []byte, label string) {
	want, werr := strconv.ParseFloat(string(field), 64)
	got, isErr, ok := h03ReadValue(field)
	vndAssert(ok, label+"-one-positioned-record")
	if werr != nil {
		vndReach("h03:" + label + "-rejected")
		vndAssert(isErr, label+"-rejected-text-is-a-syntax-error")
	} else {
		vndReach("h03:" + label + "-accepted")
		vndAssert(!isErr, label+"-accepted-text-yields-a-value")
		if !isErr {
			vndAssert(h03SameBits(got, want), label+"-value-equals-standard-parser")
		}
	}
	vndObserveBool("err", isErr)
	vndObserveF64("got", got)
}

// H03Any: an arbitrary non-blank ASCII field.
func H03Any() {
	n := vndParam("len")
	f := vndBytes("f", n)
	for _, c := range f {
		vndAssume(h03NotSpace(c))
	}
	h03Check(f, "any")
}

var h03Alpha = [][]byte{
	[]byte("+-iInNfFaAtTyY"),      // specials and near misses
	[]byte("+-0123456789._eE"),    // decimal syntax
	[]byte("+-0xX123abfF._pP"),    // hex syntax
}

// H03Alphabet: longer fields over a small alphabet.
func H03Alphabet() {
	n := vndParam("len")
	alpha := h03Alpha[vndParam("alpha")]
	f := vndBytes("f", n)
	for _, c := range f {
		in := false
		for _, a := range alpha {
			in = vndOr(in, c == a)
		}
		vndAssume(in)
	}
	h03Check(f, "alpha")
}

var h03Templates = []string{
	"?inf", "infinit?", "?nfinity", "+infini??", "na?", "?an", "-na?", "in?", "+i?f",
	"0x1.?p?", "0x?p-?", "0X?.?P+?", "0x1?p?", "0x_?p1", "1_?", "?_?", "1__?", "_?", "?_",
	"?.?e?", "?e?", ".?e-?", "?.e+?", "1e?9", "1e-?9", "1e3?9", "?e-32?", "1.7976931348623157e30?", "1.797693134862315?e308", "4.9e-32?", "2.470328229206232?e-324",
	"1234567890??e30", "98765432109?e25", "5555555555??e37", "1234567890?2e23", "7.77777777??e29",
	"9007199254740993.?", "900719925474099?", "4503599627370496.?", "1.00000000000000011102230246251565404236316680908203125?", "0.?000000000000000000000001",
	// plain decimals of 16-19 significant digits: beyond 2^53 a shortcut through an integer and one division rounds twice
	"94.17601719804?0?", "940497473450.94??", "15.8328277745127??", "0.12345678901234567??", "7205759403792793.?", "123456.789012345678?",
	// (47..50, arbitrary bytes) an underscore next to the exponent marker
	"1_e?", "1.5_e?", "?_e5", "1e_?",
	// (51..55, digits) negative numbers that underflow: the sign of the zero
	"-1e-33?", "-5e-40?", "-1e-9999?", "-?e-400", "-0.000000000000000000000000000000000000000000000001e-30?",
}

// H03Template: concrete frames with arbitrary bytes in the holes.
func H03Template() {
	t := []byte(h03Templates[vndParam("tmpl")])
	digitsOnly := vndParam("digits") == 1
	for k := range t {
		if t[k] == '?' {
			t[k] = vndByte("hole")
			if digitsOnly {
				vndAssume(vndAnd(t[k] >= '0', t[k] <= '9'))
				// long decimals leave the exact path: the multiprecision code is
				// only tractable on concrete digits, so the hole is case-split
				// (every feasible digit, each then executed concretely)
				t[k] = vndConcretizeByte(t[k])
			} else {
				vndAssume(h03NotSpace(t[k]))
			}
		}
	}
	h03Check(t, "tmpl")
}

// H03Shape: decimal shapes with symbolic digits on the exact path:
// sign? I digits [. F digits] [e sign? E digits].
func H03Shape() {
	ni, nf, ne := vndParam("int"), vndParam("frac"), vndParam("exp")
	var f []byte
	switch vndParam("sign") {
	case 1:
		f = append(f, '-')
	case 2:
		f = append(f, '+')
	}
	dig := func(name string) byte {
		c := vndByte(name)
		vndAssume(vndAnd(c >= '0', c <= '9'))
		return c
	}
	for k := 0; k < ni; k++ {
		f = append(f, dig("i"))
	}
	if nf > 0 {
		f = append(f, '.')
		for k := 0; k < nf; k++ {
			f = append(f, dig("f"))
		}
	}
	if ne > 0 {
		f = append(f, 'e')
		if vndParam("esign") == 1 {
			f = append(f, '-')
		}
		for k := 0; k < ne; k++ {
			f = append(f, dig("e"))
		}
	}
	h03Check(f, "shape")
}

// ---------------------------------------------------------------- integers

var h03SlowPath bool

// h03StubParseFloat marks that the integer fast path handed over to the full
// parser (only used by H03IntFast).
func h03StubParseFloat(s []byte, bitSize int) (float64, error) {
	h03SlowPath = true
	return 0, nil
}

// H03IntFast: d digits through the integer fast path. Either the reader
// hands over to the full parser, or the value is the correctly rounded exact
// integer: the 64-bit accumulation never wrapped.
func H03IntFast() {
	d := vndParam("digits")
	x := vndBytes("d", d)
	for _, c := range x {
		vndAssume(vndAnd(c >= '0', c <= '9'))
	}
	if vndNative() {
		// no stubbing natively: compare with the standard parser
		v, err := atof(x)
		w, werr := strconv.ParseFloat(string(x), 64)
		vndAssert((err == nil) == (werr == nil) && (err != nil || v == w), "intfast-accumulation-never-wraps")
		return
	}
	// exact value in 128 bits, and the same accumulation in 64 bits
	var hi, lo uint64
	var acc int64
	for _, c := range x {
		h, l := bits.Mul64(lo, 10)
		l2, carry := bits.Add64(l, uint64(c-'0'), 0)
		hi = hi*10 + h + carry
		lo = l2
		acc = (acc * 10) + int64(c-'0')
	}
	h03SlowPath = false
	v, err := atof(x)
	vndAssert(err == nil, "intfast-no-error")
	if h03SlowPath {
		vndReach("h03:int-slow-path")
		return
	}
	vndReach("h03:int-fast-path")
	vndAssert(vndAnd(hi == 0, lo <= math.MaxInt64), "intfast-accumulation-never-wraps")
	vndAssert(v == float64(acc), "intfast-value-is-conversion-of-the-accumulated-integer")
}

var h03IterTemplates = []string{
	"922337203685477580?", "+922337203685477580?", "-922337203685477580?", "0922337203685477580?",
	"1844674407370955161?", "92233720368547758?7", "-92233720368547758?8", "9_223372036854775807?",
	// well-placed underscores are no part of a base-10 count, however long it is
	"1_000_000_000_000_00?", "1_0000000000000000?", "100000000000000000_?", "1_000_00?",
}

// H03ItersTemplate: iteration counts around the int64 boundary, digit holes
// case-split.
func H03ItersTemplate() {
	t := []byte(h03IterTemplates[vndParam("tmpl")])
	for k := range t {
		if t[k] == '?' {
			c := vndByte("hole")
			vndAssume(vndAnd(c >= '0', c <= '9'))
			t[k] = vndConcretizeByte(c)
		}
	}
	line := append([]byte("BenchmarkX "), t...)
	line = append(line, " 5 u\n"...)
	r := NewReader(bytes.NewReader(line), "f")
	if !r.Scan() {
		vndAssert(false, "iters-one-record")
		return
	}
	want, werr := strconv.Atoi(string(t))
	switch rec := r.Result().(type) {
	case *Result:
		vndReach("h03:iters-boundary-accepted")
		vndAssert(werr == nil, "iters-rejected-text-is-a-syntax-error")
		vndAssert(rec.Iters == want, "iters-equal-the-integer-written")
	case *SyntaxError:
		vndReach("h03:iters-boundary-rejected")
		vndAssert(werr != nil, "iters-accepted-text-yields-a-result")
	}
}

// H03Iters: the iteration count equals the exact integer written, against
// strconv.Atoi.
func H03Iters() {
	n := vndParam("len")
	f := vndBytes("f", n)
	digits := vndParam("digits") == 1
	for k, c := range f {
		if digits {
			if k == 0 {
				vndAssume(vndOr(vndAnd(c >= '0', c <= '9'), vndOr(c == '-', c == '+')))
			} else {
				vndAssume(vndOr(vndAnd(c >= '0', c <= '9'), c == '_'))
			}
		} else {
			vndAssume(h03NotSpace(c))
		}
	}
	line := append([]byte("BenchmarkX "), f...)
	line = append(line, " 5 u\n"...)
	r := NewReader(bytes.NewReader(line), "f")
	if !r.Scan() {
		vndAssert(false, "iters-one-record")
		return
	}
	want, werr := strconv.Atoi(string(f))
	switch rec := r.Result().(type) {
	case *Result:
		vndReach("h03:iters-accepted")
		vndAssert(werr == nil, "iters-rejected-text-is-a-syntax-error")
		vndAssert(rec.Iters == want, "iters-equal-the-integer-written")
	case *SyntaxError:
		vndReach("h03:iters-rejected")
		vndAssert(werr != nil, "iters-accepted-text-yields-a-result")
	}
}

var h03HistFirst = []string{"1?234", "12?", "3.4?5", "7e?", "?5%", "1e40?", "123456789012345678901?"}
var h03HistSecond = []string{"100000000000000000000", "9007199254740993.0", "4.9e-324", "1.7976931348623157e308", "0.1000000000000000055511151231257827", "12345678901234567890123e-5"}

// H03History: two numbers read one after the other by the same reader, and the second one
// again through a fresh reader. The first has an arbitrary byte in it (so it is accepted on
// some paths and rejected, after some digits were consumed, on others); the second needs the
// multiprecision path. What the first one was must not influence the second.
func H03History() {
	a := []byte(h03HistFirst[vndParam("first")])
	b := []byte(h03HistSecond[vndParam("second")])
	for k := range a {
		if a[k] == '?' {
			a[k] = vndByte("hole")
			vndAssume(h03NotSpace(a[k]))
			if len(a) > 8 {
				// beyond the exact path the parser is only tractable on concrete text:
				// the byte is one of a few representatives, case-split
				vndAssume(vndOr(vndOr(a[k] == '7', a[k] == ','), vndOr(a[k] == 'e', a[k] == '.')))
				a[k] = vndConcretizeByte(a[k])
			}
		}
	}
	text := append([]byte("BenchmarkX 1 "), a...)
	text = append(text, " u\nBenchmarkY 1 "...)
	text = append(text, b...)
	text = append(text, " u\n"...)
	r := NewReader(bytes.NewReader(text), "f")
	wantA, errA := strconv.ParseFloat(string(a), 64)
	wantB, errB := strconv.ParseFloat(string(b), 64)
	if errB != nil {
		panic("h03: second number must be valid")
	}
	if !r.Scan() {
		vndAssert(false, "hist-first-record")
		return
	}
	switch rec := r.Result().(type) {
	case *Result:
		vndAssert(errA == nil && len(rec.Values) == 1 && h03SameBits(rec.Values[0].Value, wantA), "hist-first-value-equals-standard-parser")
	case *SyntaxError:
		vndReach("h03:hist-first-rejected")
		vndAssert(errA != nil, "hist-first-rejected-only-if-standard-parser-rejects")
	}
	if !r.Scan() {
		vndAssert(false, "hist-second-record")
		return
	}
	rec, ok := r.Result().(*Result)
	vndAssert(ok && len(rec.Values) == 1, "hist-second-accepted")
	if ok && len(rec.Values) == 1 {
		vndAssert(h03SameBits(rec.Values[0].Value, wantB), "hist-second-value-independent-of-the-first-number")
		vndObserveF64("second", rec.Values[0].Value)
	}
	got, isErr, ok2 := h03ReadValue(b)
	vndAssert(ok2 && !isErr && h03SameBits(got, wantB), "hist-second-value-through-a-fresh-reader")
	vndReach("h03:hist")
}

// H03Long: numbers with hundreds of digits. The digit count is chosen by the solver around
// the capacity of the reader's 800-byte decimal buffer (case split, executed concretely); a
// decimal point or exponent may follow. Bit for bit the standard parser's value.
func H03Long() {
	n := []int{30, 400, 799, 800, 801, 805, 1100}[vndChoice("digits", 7)]
	form := vndChoice("form", 4)
	b := make([]byte, 0, n+10)
	b = append(b, '1')
	for k := 0; k < n; k++ {
		b = append(b, '3')
	}
	switch form {
	case 1:
		b = append(b, ".5"...)
	case 2:
		b = append(b, 'e', '-')
		b = append(b, []byte(strconv.Itoa(n-5))...)
	case 3:
		b = append(b, ".25e-"...)
		b = append(b, []byte(strconv.Itoa(n+3))...)
	}
	want, werr := strconv.ParseFloat(string(b), 64)
	got, isErr, ok := h03ReadValue(b)
	vndReach("h03:long")
	vndAssert(ok, "long-one-positioned-record")
	vndAssert(isErr == (werr != nil), "long-rejected-exactly-when-the-standard-parser-rejects")
	if !isErr && werr == nil {
		vndAssert(h03SameBits(got, want), "long-value-equals-standard-parser")
	}
	vndObserveF64("got", got)
}

package benchfmt

// C04: measurements are normalised to base units for every value, with the
// original pair kept alongside.

import (
	"bytes"
	"strconv"

	"golang.org/x/perf/benchmath"
	"golang.org/x/perf/benchunit"
)

var h04Units = []string{
	"ns/op", "MB/s", "ns", "MB", "ns/MB", "MB/ns", "a-ns", "ns*ns", "ns-MB/s", "x/y*ns",
	"nsx", "xns", "MBs", "B/op", "sec/op", "allocs/op", "x/ns*MB", "MB-MB/ns-ns", "ns/ns", "op/s*ns",
	"B/s", "ns*MB/op", "xMB/s", "bytes/ns", "MB*MB*MB*ns*ns/op", "ns-ns-ns*MB/s*MB",
}

var h04Val float64

// h04StubParseFloat replaces bytesconv.ParseFloat in the engine: the parsed
// number is an arbitrary float64 (the parser itself is C03's subject).
func h04StubParseFloat(s []byte, bitSize int) (float64, error) { return h04Val, nil }

func h04isSep(c byte) bool {
	return c == '/' || c == '*' || c == '-' || c == ' ' || c == '\t' || c == '\n' || c == '\v' || c == '\f' || c == '\r'
}

// h04RefTidy is the reference normaliser: components are maximal runs of
// non-separator bytes; a component is in the denominator after a '/' until
// the next '*'. Numerator "ns" -> "sec" (/1e9), "MB" -> "B" (*1e6).
func h04RefTidy(unit string) (string, float64) {
	var out []byte
	factor := 1.0
	denom := false
	i := 0
	for i < len(unit) {
		c := unit[i]
		if h04isSep(c) {
			if c == '/' {
				denom = true
			} else if c == '*' {
				denom = false
			}
			out = append(out, c)
			i++
			continue
		}
		j := i
		for j < len(unit) && !h04isSep(unit[j]) {
			j++
		}
		tok := unit[i:j]
		switch {
		case !denom && tok == "ns":
			out = append(out, "sec"...)
			factor /= 1e9
		case !denom && tok == "MB":
			out = append(out, 'B')
			factor *= 1e6
		default:
			out = append(out, tok...)
		}
		i = j
	}
	return string(out), factor
}

func h04Same(a, b float64) bool {
	return vndOr(a == b, vndAnd(a != a, b != b))
}

// H04Value: one benchmark line whose value is an arbitrary float64.
func H04Value() {
	unit := h04Units[vndParam("unit")]
	v := vndFloat64("v")
	h04Val = v
	text := "V"
	if vndNative() {
		text = strconv.FormatFloat(v, 'g', -1, 64)
	}
	in := "BenchmarkX 1 " + text + " " + unit + "\n"
	r := NewReader(bytes.NewReader([]byte(in)), "f")
	if !r.Scan() {
		vndAssert(false, "one-record")
		return
	}
	res, ok := r.Result().(*Result)
	if !ok || len(res.Values) != 1 {
		vndAssert(false, "one-result-one-value")
		return
	}
	val := res.Values[0]
	wantUnit, factor := h04RefTidy(unit)
	vndReach("h04:value")

	vndAssert(val.Unit == wantUnit, "unit-is-base-unit-for-every-value")
	if wantUnit != unit {
		vndReach("h04:rewritten")
		vndAssert(h04Same(val.Value, v*factor), "value-scaled-by-factor")
		vndAssert(val.OrigUnit == unit, "written-unit-kept")
		vndAssert(h04Same(val.OrigValue, v), "written-value-kept")
	} else {
		vndAssert(h04Same(val.Value, v), "nothing-to-normalise-value-untouched")
		vndAssert(val.OrigUnit == "", "nothing-to-normalise-measurement-untouched")
	}
	// normalising an already normalised measurement changes nothing
	v2, u2 := benchunit.Tidy(val.Value, val.Unit)
	vndAssert(u2 == val.Unit && h04Same(v2, val.Value), "tidy-is-idempotent")
	vndObserveStr("unit", val.Unit)
	vndObserveF64("value", val.Value)
	vndObserveStr("origunit", val.OrigUnit)
}

// H04Meta: unit metadata and lookups apply whether the written or the base
// unit is named.
func H04Meta() {
	unit := h04Units[vndParam("unit")]
	base, _ := h04RefTidy(unit)
	named := unit
	if vndParam("namebase") == 1 {
		named = base
	}
	in := "Unit " + named + " better=higher assume=exact\nBenchmarkX 1 5 " + unit + "\n"
	r := NewReader(bytes.NewReader([]byte(in)), "f")
	n := 0
	for r.Scan() {
		switch rec := r.Result().(type) {
		case *SyntaxError:
			vndAssert(false, "no-syntax-error")
		case *UnitMetadata:
			vndAssert(rec.Unit == base, "metadata-keyed-by-base-unit")
			vndAssert(rec.OrigUnit == named, "metadata-keeps-written-unit")
			n++
		}
	}
	vndAssert(n == 2, "two-metadata-records")
	um := r.Units()
	for _, q := range []string{unit, base} {
		m := um.Get(q, "better")
		vndAssert(m != nil && m.Value == "higher", "get-by-either-name")
		vndAssert(um.GetBetter(q) == 1, "getbetter-by-either-name")
		vndAssert(um.GetAssumption(q) == benchmath.AssumeExact, "getassumption-by-either-name")
	}
	vndReach("h04:meta")
}

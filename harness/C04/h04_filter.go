package benchproc

// C04: .unit filter terms apply whether the written or the base unit is
// named, for every sequence of results seen by one filter.

import (
	"bytes"

	"golang.org/x/perf/benchfmt"
)

var h04fUnits = []string{"ns/op", "sec/op", "B/op", "MB/s", "B/s"}
var h04fBase = []string{"sec/op", "sec/op", "B/op", "B/s", "B/s"}
var h04fQueries = []string{".unit:ns/op", ".unit:sec/op", ".unit:MB/s", ".unit:B/s", "-.unit:ns/op", ".unit:(ns/op OR B/op)", ".unit:/^ns/", "-.unit:/^MB/", ".unit:/^(sec|B)\\//",
	".unit:(ns/op OR /^B/)", ".unit:(/s$/)", "-.unit:(/^B/ OR sec/op)", ".unit:/^B\\/o/ OR .unit:MB/s",
	".unit:/^(MB.s|B.op)$/"}

func h04fWant(q int, written, base string) bool {
	named := func(n string) bool { return written == n || base == n }
	switch q {
	case 0:
		return named("ns/op")
	case 1:
		return named("sec/op")
	case 2:
		return named("MB/s")
	case 3:
		return named("B/s")
	case 4:
		return !named("ns/op")
	case 6: // regular expressions are matched against the written and the base unit alike
		return written == "ns/op"
	case 7:
		return written != "MB/s"
	case 8:
		return true // every listed unit has base sec/... or B/...
	case 9: // value lists and written-out alternatives that mix words and regular expressions
		return named("ns/op") || base[0] == 'B'
	case 10:
		return base == "B/s"
	case 11:
		return false
	case 12:
		return written == "B/op" || named("MB/s")
	case 13: // one alternative matches a written name only, the other a name that is written and base alike
		return written == "MB/s" || written == "B/op"
	}
	return named("ns/op") || named("B/op")
}

func H04Filter() {
	q := vndParam("query")
	f, err := NewFilter(h04fQueries[q])
	if err != nil {
		panic(err)
	}
	n := vndParam("results")
	for k := 0; k < n; k++ {
		u := vndChoice("unit", len(h04fUnits))
		val := "5"
		if k == 0 {
			val = []string{"5", "0", "-0", "+Inf", "NaN"}[vndChoice("value", 5)] // the verdict does not depend on the value
		}
		in := "BenchmarkX 1 " + val + " " + h04fUnits[u] + "\n"
		r := benchfmt.NewReader(bytes.NewReader([]byte(in)), "f")
		if !r.Scan() {
			panic("no record")
		}
		res := r.Result().(*benchfmt.Result)
		m, _ := f.Match(res)
		vndAssert(m.Test(0) == h04fWant(q, h04fUnits[u], h04fBase[u]), "unit-filter-by-either-name")
		vndReach("h04f:matched")
	}
	// one result with measurements in several units: each measurement has its own verdict,
	// whichever name of whichever other measurement matched
	in := "BenchmarkY 1 2 MB/s 8 B/op 5 ns/op 7 B/s\n"
	r := benchfmt.NewReader(bytes.NewReader([]byte(in)), "f")
	if !r.Scan() {
		panic("no record")
	}
	res := r.Result().(*benchfmt.Result)
	m, _ := f.Match(res)
	for i, u := range []int{3, 2, 0, 4} { // indices into h04fUnits
		vndAssert(m.Test(i) == h04fWant(q, h04fUnits[u], h04fBase[u]), "unit-filter-judges-each-measurement-by-its-own-names")
	}
}

package benchunit

// C04: the unit grammar. Tidy and ClassOf on an arbitrary unit over a small
// alphabet, against a reference normaliser.

func h04isSep(c byte) bool {
	return c == '/' || c == '*' || c == '-' || c == ' '
}

func h04Ref(unit []byte) (out []byte, nNs, nMB int, binary bool) {
	denom := false
	i := 0
	for i < len(unit) {
		c := unit[i]
		if h04isSep(c) {
			if c == '/' {
				denom = true
			} else if c == '*' {
				denom = false
			}
			out = append(out, c)
			i++
			continue
		}
		j := i
		for j < len(unit) && !h04isSep(unit[j]) {
			j++
		}
		tok := string(unit[i:j])
		switch {
		case !denom && tok == "ns":
			out = append(out, "sec"...)
			nNs++
		case !denom && tok == "MB":
			out = append(out, 'B')
			nMB++
			binary = true
		default:
			if !denom && (tok == "B" || tok == "bytes") {
				binary = true
			}
			out = append(out, tok...)
		}
		i = j
	}
	return
}

func H04Grammar() {
	n := vndParam("len")
	tail := vndBytes("u", n)
	for _, c := range tail {
		vndAssume(c == 'n' || c == 's' || c == 'M' || c == 'B' || c == 'x' || c == '/' || c == '*' || c == '-' || c == ' ')
	}
	// a concrete head makes longer units reachable: a word that merely contains "ns" or "MB"
	// before the symbolic rest (which may hold a real component)
	raw := append([]byte([]string{"", "xns", "xMB", "nsx-"}[vndParam("head")]), tail...)
	unit := string(raw)
	want, nNs, nMB, binary := h04Ref(raw)
	v, u := Tidy(1, unit)
	vndReach("h04g:tidied")
	if nNs+nMB > 0 {
		vndReach("h04g:rewritten")
	}
	vndAssert(u == string(want), "tidy-unit-matches-reference")
	f := 1.0
	// factors are applied in component order; recompute in the same order
	denom := false
	i := 0
	for i < len(raw) {
		c := raw[i]
		if h04isSep(c) {
			if c == '/' {
				denom = true
			} else if c == '*' {
				denom = false
			}
			i++
			continue
		}
		j := i
		for j < len(raw) && !h04isSep(raw[j]) {
			j++
		}
		tok := string(raw[i:j])
		if !denom && tok == "ns" {
			f /= 1e9
		} else if !denom && tok == "MB" {
			f *= 1e6
		}
		i = j
	}
	vndAssert(v == f, "tidy-factor-matches-reference")
	// idempotence
	v2, u2 := Tidy(v, u)
	vndAssert(u2 == u && v2 == v, "tidy-idempotent")
	// class
	vndAssert((ClassOf(unit) == Binary) == binary, "classof-binary-iff-bytes-in-numerator")
	vndObserveStr("u", u)
}

var h04Chars = []string{"n", "s", "M", "B", "/", "*", " ", "\u00e0", "\u0085", "\u00a0", "\n"} // U+00E0 ends in byte 0xA0; NEL, NBSP and newline are spaces

// H04GrammarWide: units whose characters include a letter and a space that
// are multi-byte in UTF-8.
func H04GrammarWide() {
	n := vndParam("len")
	var unit string
	var ref []byte // the same unit with the two-byte letter as 'x' and NEL as ' '
	for i := 0; i < n; i++ {
		k := vndChoice("ch", len(h04Chars))
		unit += h04Chars[k]
		switch k {
		case 7:
			ref = append(ref, 'x')
		case 8, 9, 10:
			ref = append(ref, ' ')
		default:
			ref = append(ref, h04Chars[k]...)
		}
	}
	_, nNs, nMB, binary := h04Ref(ref)
	v, u := Tidy(1, unit)
	vndReach("h04g:wide")
	f := 1.0
	for i := 0; i < nNs; i++ {
		f /= 1e9
	}
	_ = v
	_ = f
	_ = u
	vndAssert((nNs+nMB > 0) == (u != unit), "tidy-rewrites-exactly-when-a-numerator-ns-or-mb-component-exists")
	vndAssert((ClassOf(unit) == Binary) == binary, "classof-binary-iff-bytes-in-numerator")
}

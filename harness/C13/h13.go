package benchmath

// C13: summaries and comparisons honour their statistical contracts.

import (
	"github.com/aclements/go-moremath/stats"
	"fmt"
	"math"
	"strings"
)

func h13Bounded(v float64) bool {
	return vndAnd(v == v, vndAnd(v <= 1e300, v >= -1e300))
}

func h13SortedSample(name string, n int, t *Thresholds) ([]float64, *Sample) {
	xs := make([]float64, n)
	for i := range xs {
		xs[i] = vndFloat64(name)
		vndAssume(h13Bounded(xs[i]))
		if i > 0 {
			vndAssume(xs[i-1] <= xs[i])
		}
	}
	return xs, NewSample(append([]float64(nil), xs...), t)
}

// H13Exact: the exact model's centre is a most frequent value, the interval
// is [min,max], confidence 1, a warning exactly when values differ.
func H13Exact() {
	n := vndParam("n")
	xs := make([]float64, n)
	for i := range xs {
		xs[i] = vndFloat64("x")
		vndAssume(h13Bounded(xs[i]))
		if n >= 5 && i > 0 {
			vndAssume(xs[i-1] <= xs[i]) // larger samples are handed over sorted: one path per tie pattern
		}
	}
	s := NewSample(append([]float64(nil), xs...), &DefaultThresholds)
	sum := AssumeExact.Summary(s, 0.95)
	vndReach("h13:exact")
	// multiplicity of the centre is maximal
	mult := func(v float64) int {
		c := 0
		for _, x := range xs {
			c += vndIteInt(x == v, 1, 0)
		}
		return c
	}
	mc := mult(sum.Center)
	vndAssert(mc >= 1, "exact-centre-is-a-sample-value")
	allEqual := true
	mn, mx := xs[0], xs[0]
	for _, x := range xs {
		vndAssert(mult(x) <= mc, "exact-centre-is-a-most-frequent-value")
		allEqual = vndAnd(allEqual, x == xs[0])
		mn = vndIteF64(x < mn, x, mn)
		mx = vndIteF64(x > mx, x, mx)
	}
	vndAssert(sum.Lo == mn && sum.Hi == mx, "exact-interval-is-min-max")
	vndAssert(sum.Confidence == 1, "exact-confidence-is-1")
	vndAssert((len(sum.Warnings) > 0) == !allEqual, "exact-warning-exactly-when-values-differ")
	c := AssumeExact.Compare(s, s)
	vndAssert(c.N1 == n && c.N2 == n, "comparison-reports-sample-sizes")
}

var h13Conf = []float64{0.9, 0.95, 0.99}

func h13Choose(n, k int) float64 {
	r := 1.0
	for i := 0; i < k; i++ {
		r = r * float64(n-i) / float64(i+1)
	}
	return r
}

// H13Nothing: assume-nothing summary.
func H13Nothing() {
	n := vndParam("n")
	conf := h13Conf[vndParam("conf")]
	xs, s := h13SortedSample("x", n, &DefaultThresholds)
	sum := AssumeNothing.Summary(s, conf)
	ci := medianCI(n, conf)
	vndReach("h13:nothing")
	// interval ends are values of the sample or infinite
	if ci.LoOrder >= 1 {
		vndAssert(sum.Lo == xs[ci.LoOrder-1], "lo-is-an-order-statistic")
	} else {
		vndAssert(math.IsInf(sum.Lo, -1), "lo-infinite-when-unbounded")
	}
	if ci.HiOrder-1 < n {
		vndAssert(sum.Hi == xs[ci.HiOrder-1], "hi-is-an-order-statistic")
	} else {
		vndAssert(math.IsInf(sum.Hi, 1), "hi-infinite-when-unbounded")
	}
	// the centre is the sample median: between the two middle order statistics
	a, b := xs[(n-1)/2], xs[n/2]
	vndAssert(vndAnd(sum.Center >= a, sum.Center <= b), "centre-is-the-median")
	vndAssert(vndAnd(sum.Lo <= sum.Center, sum.Center <= sum.Hi), "interval-brackets-the-centre")
	// confidence: at least the requested level when bounded, equal to the binomial coverage
	unbounded := ci.LoOrder < 1 || ci.HiOrder-1 >= n
	if !unbounded {
		vndReach("h13:bounded")
		vndAssert(sum.Confidence >= conf, "confidence-at-least-requested")
		cov := 0.0
		for k := ci.LoOrder; k < ci.HiOrder; k++ {
			cov += h13Choose(n, k) * math.Pow(0.5, float64(n))
		}
		vndAssert(math.Abs(sum.Confidence-cov) <= 1e-12, "confidence-is-the-binomial-coverage")
	}
	vndAssert((len(sum.Warnings) > 0) == unbounded, "warning-exactly-when-unbounded")
	if unbounded && len(sum.Warnings) > 0 {
		// the warning names the smallest n with a bounded interval
		need := 0
		for m := 2; m <= 50 && need == 0; m++ {
			c := medianCI(m, conf)
			if c.LoOrder > 0 && c.HiOrder <= m {
				need = m
			}
		}
		vndAssert(strings.Contains(sum.Warnings[0].Error(), fmt.Sprintf(">= %d samples", need)), "warning-names-the-samples-needed")
	}
}

// H13Compare: assume-nothing comparison.
func H13Compare() {
	n1, n2 := vndParam("n1"), vndParam("n2")
	alpha := vndFloat64("alpha")
	vndAssume(vndAnd(alpha >= 0, alpha <= 1))
	th := &Thresholds{CompareAlpha: alpha}
	x1, s1 := h13SortedSample("x1", n1, th)
	x2, s2 := h13SortedSample("x2", n2, th)
	c := AssumeNothing.Compare(s1, s2)
	vndReach("h13:compare")
	vndAssert(c.N1 == n1 && c.N2 == n2, "comparison-reports-sample-sizes")
	vndAssert(c.Alpha == alpha, "comparison-carries-the-samples-threshold")
	vndAssert(c.P >= 0 && c.P <= 1, "p-in-unit-interval")
	// reordering each sample
	r1 := make([]float64, n1)
	for i := range r1 {
		r1[i] = x1[n1-1-i]
	}
	r2 := append(append([]float64{}, x2[1:]...), x2[0])
	cr := AssumeNothing.Compare(NewSample(r1, th), NewSample(r2, th))
	vndAssert(cr.P == c.P, "p-invariant-under-reordering")
	// common positive rescaling (exact in binary floating point)
	d1, d2 := make([]float64, n1), make([]float64, n2)
	for i := range d1 {
		d1[i] = 2 * x1[i]
	}
	for i := range d2 {
		d2[i] = 2 * x2[i]
	}
	cd := AssumeNothing.Compare(NewSample(d1, th), NewSample(d2, th))
	vndAssert(cd.P == c.P, "p-invariant-under-common-rescaling")
	// untied: symmetric and equal to the exact permutation p-value
	untied := true
	pool := append(append([]float64{}, x1...), x2...)
	for i := range pool {
		for j := i + 1; j < len(pool); j++ {
			if pool[i] == pool[j] {
				untied = false
			}
		}
	}
	// "all samples are equal" is reported exactly when every pooled value is the same
	allEqual := true
	for i := range pool {
		allEqual = vndAnd(allEqual, pool[i] == pool[0])
	}
	saysEqual := false
	for _, w := range c.Warnings {
		if w == stats.ErrSamplesEqual {
			saysEqual = true
		}
	}
	vndAssert(saysEqual == allEqual, "all-equal-reported-exactly-when-all-values-are-equal")
	if untied {
		vndReach("h13:untied")
		cs := AssumeNothing.Compare(s2, s1)
		vndAssert(math.Abs(cs.P-c.P) <= 1e-12, "p-symmetric-in-the-samples")
		// exact permutation p-value
		n := n1 + n2
		gt := func(i, j int) int {
			if pool[i] > pool[j] {
				return 1
			}
			return 0
		}
		u := func(mask uint) int {
			s := 0
			for i := 0; i < n; i++ {
				if mask&(1<<uint(i)) != 0 {
					for j := 0; j < n; j++ {
						if mask&(1<<uint(j)) == 0 {
							s += gt(i, j)
						}
					}
				}
			}
			return s
		}
		obs := u((1 << uint(n1)) - 1)
		tot, le, ge := 0, 0, 0
		for m := uint(0); m < 1<<uint(n); m++ {
			k := 0
			for b := 0; b < n; b++ {
				if m&(1<<uint(b)) != 0 {
					k++
				}
			}
			if k != n1 {
				continue
			}
			tot++
			if u(m) <= obs {
				le++
			}
			if u(m) >= obs {
				ge++
			}
		}
		want := math.Min(1, 2*math.Min(float64(le), float64(ge))/float64(tot))
		vndAssert(math.Abs(c.P-want) <= 1e-12, "p-is-the-exact-permutation-p-value-for-untied-samples")
	}
}

// H13Alpha: every assumption that performs a test carries the threshold the
// samples were created with (concrete samples, symbolic threshold).
func H13Alpha() {
	alpha := vndFloat64("alpha")
	vndAssume(vndAnd(alpha >= 0, alpha <= 1))
	th := &Thresholds{CompareAlpha: alpha}
	var a, b []float64
	switch vndParam("samples") {
	case 0:
		a, b = []float64{1, 2, 3, 4}, []float64{5, 6, 7, 9}
	case 1:
		a, b = []float64{1, 1}, []float64{1, 1} // zero variance / all equal: error paths
	case 2:
		a, b = []float64{3}, []float64{4} // undersized for a t-test
	}
	s1, s2 := NewSample(a, th), NewSample(b, th)
	vndReach("h13:alpha")
	cn := AssumeNothing.Compare(s1, s2)
	vndAssert(cn.Alpha == alpha, "nothing-model-carries-threshold")
	cm := AssumeNormal.Compare(s1, s2)
	vndAssert(cm.Alpha == alpha, "normal-model-carries-threshold")
	vndAssert(cm.N1 == len(a) && cm.N2 == len(b), "normal-model-reports-sizes")
}

// H13Format: rendering rules for deltas and ranges.
func H13Format() {
	p, alpha := vndFloat64("p"), vndFloat64("alpha")
	old, new := vndFloat64("old"), vndFloat64("new")
	vndAssume(vndAnd(vndAnd(p >= 0, p <= 1), vndAnd(alpha >= 0, alpha <= 1)))
	vndAssume(vndAnd(h13Bounded(old), h13Bounded(new)))
	c := Comparison{P: p, Alpha: alpha, N1: 3, N2: 3}
	got := c.FormatDelta(old, new)
	vndReach("h13:format")
	switch {
	case p > alpha:
		vndAssert(got == "~", "tilde-exactly-when-p-exceeds-threshold")
	case old == new:
		vndAssert(got == "0.00%", "zero-delta")
	case old == 0:
		vndAssert(got == "?", "unknown-delta-from-zero")
	default:
		vndAssert(got != "~" && got != "?" && got != "0.00%", "percentage-shown-when-significant")
		if !vndNative() {
			// the formatted argument is (new/old - 1)*100: identical term <=> identical rendering
			vndAssert(got == fmt.Sprintf("%+.2f%%", ((new/old)-1.0)*100.0), "delta-is-new-over-old-minus-one-in-percent")
		}
	}
}

// H13Range: the rendered range.
func H13Range() {
	lo, ce, hi := vndFloat64("lo"), vndFloat64("centre"), vndFloat64("hi")
	vndAssume(vndAnd(lo == lo, vndAnd(ce == ce, hi == hi)))
	vndAssume(vndAnd(lo <= ce, ce <= hi))
	s := Summary{Center: ce, Lo: lo, Hi: hi}
	got := s.PctRangeString()
	vndReach("h13:range")
	inf := vndOr(math.IsInf(lo, 0), math.IsInf(hi, 0))
	sign := func(v float64) int { return vndIteInt(v > 0, 1, vndIteInt(v < 0, -1, 0)) }
	mixed := vndOr(sign(ce) != sign(lo), sign(ce) != sign(hi))
	switch {
	case inf:
		vndAssert(got == "∞", "infinite-range")
	case mixed:
		vndAssert(got == "?", "question-mark-when-signs-differ")
	case ce == 0:
		vndAssert(got == "0%", "zero-range")
	default:
		vndAssert(got != "∞" && got != "?" && got != "0%" || ce != 0, "percentage-range")
		if !vndNative() {
			vndAssert(got == fmt.Sprintf("%.0f%%", 100*math.Max(hi/ce-1, 1-lo/ce)), "range-is-the-larger-relative-deviation")
		}
	}
}

// H13CacheHistory: summaries at two confidence levels just below and just
// above a step of the binomial coverage, computed one after the other in one
// process (the order-statistic cache is keyed by sample size and level).
func H13CacheHistory() {
	// start from an empty cache: natively all replay cases share one process
	medianCache.Range(func(k, v interface{}) bool {
		medianCache.Delete(k)
		return true
	})
	n := vndParam("n")
	xs, s := h13SortedSample("x", n, &DefaultThresholds)
	_ = xs
	// coverage of the symmetric order-statistic interval (k, n+1-k)
	step := vndParam("step") // k = 1..n/2
	cov := 0.0
	for k := step; k < n+1-step; k++ {
		cov += h13Choose(n, k) * math.Pow(0.5, float64(n))
	}
	lo, hi := cov-1e-7, cov+1e-7
	first, second := lo, hi
	if vndParam("order") == 1 {
		first, second = hi, lo
	}
	vndReach("h13:cache-history")
	for _, conf := range []float64{first, second} {
		if conf <= 0 || conf >= 1 {
			continue
		}
		sum := AssumeNothing.Summary(s, conf)
		bounded := !math.IsInf(sum.Lo, 0) && !math.IsInf(sum.Hi, 0)
		if bounded {
			vndAssert(sum.Confidence >= conf, "confidence-at-least-requested-after-other-levels")
		}
		vndAssert((len(sum.Warnings) > 0) == !bounded, "warning-exactly-when-unbounded-after-other-levels")
	}
}

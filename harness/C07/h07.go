package benchproc

// C07: any string is expressible in expression syntax; bad expressions fail
// cleanly.

import (
	"golang.org/x/perf/benchfmt"
	"golang.org/x/perf/benchproc/internal/parse"
)

func h07hex(d byte) byte { return '0' + d + (d/10)*39 }

// h07Quote writes s as a Go double-quoted string literal: printable ASCII
// as itself, '"' and '\\' backslash-escaped, everything else as \xNN.
func h07Quote(s []byte) string {
	out := []byte{'"'}
	for _, c := range s {
		switch {
		case c == '"' || c == '\\':
			out = append(out, '\\', c)
		case c >= 0x20 && c < 0x7f:
			out = append(out, c)
		default:
			out = append(out, '\\', 'x', h07hex(c>>4), h07hex(c&15))
		}
	}
	return string(append(out, '"'))
}

func h07Result(key string, val string) *benchfmt.Result {
	res := &benchfmt.Result{Name: benchfmt.Name("B"), Iters: 1}
	res.SetConfig(key, val)
	res.Values = []benchfmt.Value{{Value: 1, Unit: "u"}}
	return res
}

func h07Match(f *Filter, res *benchfmt.Result) bool {
	m, err := f.Match(res)
	if err != nil {
		panic(err)
	}
	return m.All()
}

// H07QuotedValue: key:"literal" denotes exactly the string.
func H07QuotedValue() {
	n := vndParam("len")
	s := vndBytes("s", n)
	lit := h07Quote(s)
	f, err := NewFilter("k:" + lit)
	vndAssert(err == nil, "quoted-value-parses")
	if err != nil {
		return
	}
	vndReach("h07:quoted-value")
	t := vndBytes("t", n)
	vndAssert(h07Match(f, h07Result("k", string(t))) == (string(t) == string(s)), "quoted-value-denotes-exactly-the-string")
	vndAssert(!h07Match(f, h07Result("k", string(s)+"x")), "quoted-value-rejects-longer")
	if n > 0 {
		vndAssert(!h07Match(f, h07Result("k", string(s[:n-1]))), "quoted-value-rejects-shorter")
	}
	// in a value list and in a fixed-order list
	f2, err := NewFilter("k:(zz OR " + lit + ")")
	vndAssert(err == nil, "quoted-value-in-list-parses")
	if err == nil {
		vndAssert(h07Match(f2, h07Result("k", string(s))), "quoted-value-in-list-matches")
	}
	vndObserveStr("lit", lit)
}

func h07PlainKey(s []byte) {
	vndAssume(len(s) > 0 && s[0] != '.' && s[0] != '/')
	vndAssume(string(s) != "k2") // the harness's own second key
}

// H07QuotedKey: "literal":v and the projection "literal" denote the key.
func H07QuotedKey() {
	n := vndParam("len")
	s := vndBytes("s", n)
	h07PlainKey(s)
	lit := h07Quote(s)
	f, err := NewFilter(lit + ":v")
	vndAssert(err == nil, "quoted-key-parses")
	if err != nil {
		return
	}
	vndReach("h07:quoted-key")
	vndAssert(h07Match(f, h07Result(string(s), "v")), "quoted-key-finds-its-value")
	vndAssert(!h07Match(f, h07Result(string(s), "w")), "quoted-key-compares-value")

	var pp ProjectionParser
	filter, _ := NewFilter("*")
	proj, err := pp.Parse(lit+",k2@("+lit+" y)", filter)
	vndAssert(err == nil, "quoted-projection-parses")
	if err != nil {
		return
	}
	fs := proj.Fields()
	vndAssert(len(fs) == 2 && fs[0].Name == string(s), "projection-field-name-is-the-string")
	res := h07Result(string(s), "val")
	res.SetConfig("k2", string(s))
	vndAssert(h07Match(filter, res), "fixed-list-value-is-the-string")
	key := proj.Project(res)
	vndAssert(key.Get(fs[0]) == "val" && key.Get(fs[1]) == string(s), "projection-extracts-by-the-string")
}

func h07isBareByte(c byte) bool {
	special := vndOr(vndOr(c == '(', c == ')'), vndOr(vndOr(c == ':', c == '@'), vndOr(c == ',', c == '"')))
	return vndAnd(vndAnd(c > 0x20, c < 0x7f), !special)
}

// H07Bare: an unquoted word works whenever it contains none of the special
// characters.
func H07Bare() {
	n := vndParam("len")
	var s []byte
	for k := 0; k < n; k++ {
		// each character is one allowed ASCII byte or a two-byte rune U+00C0..U+00FF
		// or one arbitrary byte >= 0x80 that cannot be part of the encoding of a Unicode space
		// (continuation bytes, lead bytes C3..DF, invalid bytes F5..FF): a stray byte is an
		// ordinary character of the word
		if vndBool("wide") {
			c := vndByte("cont")
			vndAssume(vndAnd(c >= 0x80, c <= 0xbf))
			s = append(s, 0xc3, c)
			vndReach("h07:bare-nonascii")
		} else if vndBool("raw") {
			c := vndByte("rawbyte")
			vndAssume(vndOr(vndAnd(c >= 0x80, c <= 0xbf), vndOr(vndAnd(c >= 0xc3, c <= 0xdf), c >= 0xf5)))
			s = append(s, c)
			vndReach("h07:bare-raw")
		} else {
			c := vndByte("s")
			vndAssume(h07isBareByte(c))
			s = append(s, c)
		}
	}
	n = len(s)
	vndAssume(n > 0 && s[0] != '-' && s[0] != '*' && s[0] != '/')
	vndAssume(string(s) != "AND" && string(s) != "OR")
	f, err := NewFilter("k:" + string(s))
	vndAssert(err == nil, "bare-value-parses")
	if err != nil {
		return
	}
	vndReach("h07:bare")
	t := vndBytes("t", n)
	vndAssert(h07Match(f, h07Result("k", string(t))) == (string(t) == string(s)), "bare-value-denotes-exactly-the-string")
	if s[0] != '.' {
		f2, err := NewFilter(string(s) + ":v")
		vndAssert(err == nil, "bare-key-parses")
		if err == nil {
			vndAssert(h07Match(f2, h07Result(string(s), "v")), "bare-key-finds-its-value")
		}
	}
}

var h07Alphabet = []byte{'(', ')', ':', '@', ',', '"', '\\', '-', '*', ' ', 'A', 'N', 'D', 'O', 'R', 'x', '.', '/'}

func h07Text() string {
	n := vndParam("len")
	s := vndBytes("q", n)
	for _, c := range s {
		ok := false
		for _, a := range h07Alphabet {
			ok = vndOr(ok, c == a)
		}
		vndAssume(ok)
	}
	return string(s)
}

func h07CheckErr(err error, text string, label string) {
	if err == nil {
		return
	}
	se, ok := err.(*parse.SyntaxError)
	vndAssert(ok, label+"-error-is-syntax-error")
	if ok {
		vndAssert(se.Off >= 0 && se.Off <= len(text), label+"-error-positioned-inside-text")
	}
}

// H07RobustFilter: parsing any text succeeds or returns a positioned syntax
// error; mandatory rejections.
func H07RobustFilter() {
	text := h07Text()
	f, err := NewFilter(text)
	vndReach("h07:robust-filter")
	h07CheckErr(err, text, "filter")
	vndAssert((f == nil) == (err != nil), "filter-nil-iff-error")

	plain := true // no quotes, backslashes or regexps: structure is visible
	depth, minDepth, hasWord, hasColon := 0, 0, false, false
	last := byte(' ')
	for i := 0; i < len(text); i++ {
		c := text[i]
		switch c {
		case '"', '\\', '/':
			plain = false
		case '(':
			depth++
		case ')':
			depth--
			if depth < minDepth {
				minDepth = depth
			}
		case ':':
			hasColon = true
		case 'x':
			hasWord = true
		}
		if c != ' ' {
			last = c
		}
	}
	if plain {
		if depth != 0 || minDepth < 0 {
			vndReach("h07:unbalanced")
			vndAssert(err != nil, "unbalanced-parentheses-rejected")
		}
		if hasWord && !hasColon {
			vndAssert(err != nil, "term-without-colon-rejected")
		}
		if last == ':' {
			vndAssert(err != nil, "term-without-value-rejected")
		}
	}
	// A single quote that starts a word (a quote inside a bare word or a
	// regexp is an ordinary character) can never be terminated.
	nq, slash, atStart := 0, false, false
	for i := 0; i < len(text); i++ {
		switch text[i] {
		case '"':
			nq++
			atStart = i == 0 || text[i-1] == ' ' || text[i-1] == '(' || text[i-1] == ':'
		case '/':
			slash = true
		}
	}
	if nq == 1 && atStart && !slash {
		vndAssert(err != nil, "unterminated-quote-rejected")
	}
	// semantic rejection, judged on the parser's own tree
	if q, perr := parse.ParseFilter(text); perr == nil {
		if h07HasConfigKey(q) {
			vndReach("h07:config-in-filter")
			vndAssert(err != nil, "dot-config-in-filter-rejected")
		}
	} else {
		vndAssert(err != nil, "newfilter-rejects-what-the-parser-rejects")
	}
}

func h07HasConfigKey(q parse.Filter) bool {
	switch q := q.(type) {
	case *parse.FilterMatch:
		return q.Key == ".config" || q.Key == ""
	case *parse.FilterOp:
		for _, e := range q.Exprs {
			if h07HasConfigKey(e) {
				return true
			}
		}
	}
	return false
}

// H07RobustProjection: same for projections.
func H07RobustProjection() {
	text := h07Text()
	var pp ProjectionParser
	filter, _ := NewFilter("*")
	proj, err := pp.Parse(text, filter)
	vndReach("h07:robust-projection")
	h07CheckErr(err, text, "projection")
	vndAssert((proj == nil) == (err != nil), "projection-nil-iff-error")
	fields, perr := parse.ParseProjection(text)
	if perr != nil {
		vndAssert(err != nil, "parse-rejects-what-the-parser-rejects")
		return
	}
	for _, f := range fields {
		if f.Key == ".unit" {
			vndReach("h07:unit-in-projection")
			vndAssert(err != nil, "dot-unit-in-projection-rejected")
		}
		if f.Key == "" {
			vndAssert(err != nil, "empty-key-rejected")
		}
		if f.Order != "first" && f.Order != "fixed" && f.Order != "alpha" && f.Order != "num" {
			vndReach("h07:unknown-order")
			vndAssert(err != nil, "unknown-order-rejected")
		}
		if f.Key == ".config" && f.Order == "fixed" {
			vndAssert(err != nil, "fixed-order-on-dot-config-rejected")
		}
		if f.Order == "fixed" {
			vndAssert(len(f.Fixed) > 0, "empty-fixed-list-rejected")
		}
	}
	plain := true
	depth, minDepth := 0, 0
	for i := 0; i < len(text); i++ {
		switch text[i] {
		case '"', '\\':
			plain = false
		case '(':
			depth++
		case ')':
			depth--
			if depth < minDepth {
				minDepth = depth
			}
		}
	}
	if plain && (depth != 0 || minDepth < 0) {
		vndAssert(false, "unbalanced-parentheses-rejected-in-projection")
	}
}

// H07Templates: semantic rejections on concrete frames with symbolic filler.
func H07Templates() {
	n := vndParam("len")
	w := vndBytes("w", n)
	for _, c := range w {
		vndAssume(c >= 'a' && c <= 'z')
	}
	var pp ProjectionParser
	filter, _ := NewFilter("*")
	_, err := pp.Parse("k@"+string(w), filter)
	// "alpha" and "num" are the documented named orders; "first" is the name
	// parse.Field documents for the default order and means exactly that.
	// "fixed" names the parenthesised form and is not an order a user can
	// write: accepted, it would stand for an empty fixed list.
	known := string(w) == "alpha" || string(w) == "num" || string(w) == "first"
	vndAssert((err == nil) == known, "only-documented-orders-accepted")
	vndReach("h07:templates")
	// the order may be written as a quoted word: same rule, and the empty word is no order
	_, err = pp.Parse("k@\""+string(w)+"\"", filter)
	vndAssert((err == nil) == known, "only-documented-orders-accepted")
	_, err = pp.Parse("k@\"\"", filter)
	vndAssert(err != nil, "only-documented-orders-accepted")
	_, err = pp.Parse(".unit@"+string(w), filter)
	vndAssert(err != nil, "dot-unit-projection-rejected-any-order")
	_, err = pp.Parse("k@( )", filter)
	vndAssert(err != nil, "empty-fixed-list-rejected-template")
	_, err = NewFilter(".config:" + string(w))
	vndAssert(err != nil, "dot-config-filter-rejected-any-value")
	cf := ".config:" + string(w)
	for _, q := range []string{"* OR " + cf, "a:b OR * OR " + cf, "* OR -" + cf, "a:b (* OR " + cf + ")", "-(* OR " + cf + ")",
		cf + " OR *", "* " + cf, "-" + cf, "a:b OR " + cf, "a:b AND " + cf, "(a:b) (" + cf + ")", "* AND (a:b OR -(" + cf + "))"} {
		_, err = NewFilter(q)
		vndAssert(err != nil, "dot-config-filter-rejected-inside-any-boolean-structure")
	}
	// value lists on .config
	for _, q := range []string{".config:(" + string(w) + " OR b)", ".config:" + string(w) + " OR .config:b", "a:b OR .config:(x OR " + string(w) + ")"} {
		_, err = NewFilter(q)
		vndAssert(err != nil, "dot-config-filter-rejected-inside-any-boolean-structure")
	}
	// a bare list element may begin with '/' (only a value in a filter is a regexp there)
	var pp3 ProjectionParser
	f3, _ := NewFilter("*")
	_, err = pp3.Parse("dir@(/tmp /home Y)", f3)
	vndAssert(err == nil, "bare-list-element-may-begin-with-a-slash")
	if err == nil {
		vndAssert(h07Match(f3, h07Result("dir", "/tmp")) && h07Match(f3, h07Result("dir", "/home")) && !h07Match(f3, h07Result("dir", "tmp ")), "fixed-list-value-is-the-string")
	}
	pp3 = ProjectionParser{}
	f3, _ = NewFilter("*")
	_, err = pp3.Parse("dir@(/"+string(w)+" /home Y)", f3)
	vndAssert(err == nil, "bare-list-element-may-begin-with-a-slash")
	if err == nil {
		vndAssert(h07Match(f3, h07Result("dir", "/"+string(w))), "fixed-list-value-is-the-string")
		vndAssert(!h07Match(f3, h07Result("dir", string(w))), "fixed-list-value-is-the-string")
	}
	for _, q := range []string{"a,.unit", ".unit,a", "a,.unit@" + string(w), ".name .unit"} {
		_, err = pp.Parse(q, filter)
		vndAssert(err != nil, "dot-unit-projection-rejected-among-other-fields")
	}
	// upper-case words in value position: AND/OR are keywords, never values
	u := make([]byte, len(w))
	for k := range w {
		u[k] = w[k] - 'a' + 'A'
	}
	_, err = NewFilter("k:" + string(u))
	if string(u) == "AND" || string(u) == "OR" {
		vndReach("h07:keyword-as-value")
		vndAssert(err != nil, "keyword-in-value-position-rejected")
	} else {
		vndAssert(err == nil, "upper-case-word-is-a-value")
	}
	_, err = NewFilter("-(a:b OR k:" + string(u) + ")")
	vndAssert((err != nil) == (string(u) == "AND" || string(u) == "OR"), "keyword-in-nested-value-position")
	_, err = NewFilter("k:/" + string(w))
	vndAssert(err != nil, "unterminated-regexp-rejected")
	_, err = NewFilter("k:\"" + string(w))
	vndAssert(err != nil, "unterminated-quote-rejected-template")
	// ... in every position of a value list, and a terminated one is a regexp in every position
	for _, q := range []string{"k:(/" + string(w) + " OR d)", "k:(d OR /" + string(w) + ")", "k:(d OR e OR /" + string(w) + ")", "-k:(d OR /" + string(w) + ")",
		"a:b k:(d OR \"e\" OR /" + string(w) + ")", "k:(d OR \"" + string(w) + ")"} {
		_, err = NewFilter(q)
		vndAssert(err != nil, "unterminated-regexp-rejected-in-a-value-list")
	}
	for _, q := range []string{"k:(/^ab*$/ OR d)", "k:(d OR /^ab*$/)", "k:(d OR \"e\" OR /^ab*$/)"} {
		f4, err4 := NewFilter(q)
		vndAssert(err4 == nil, "regexp-accepted-in-a-value-list")
		if err4 == nil {
			vndAssert(h07Match(f4, h07Result("k", "abb")) && h07Match(f4, h07Result("k", "d")) && !h07Match(f4, h07Result("k", "/^ab*$/")), "list-regexp-is-a-regexp-in-every-position")
		}
	}
}

// H07TwoTerms: two quoted terms in one filter each denote their own key and
// value, also when their "key:value" spellings coincide (quotes make ':' an
// ordinary character).
func H07TwoTerms() {
	alpha := func(b []byte) {
		for _, c := range b {
			vndAssume(vndOr(vndOr(c == 'a', c == 'b'), c == ':'))
		}
	}
	lk1, lv1 := vndParam("k1"), vndParam("v1")
	lk2, lv2 := vndParam("k2"), vndParam("v2")
	k1, v1 := vndBytes("k1", lk1), vndBytes("v1", lv1)
	k2, v2 := vndBytes("k2", lk2), vndBytes("v2", lv2)
	alpha(k1)
	alpha(v1)
	alpha(k2)
	alpha(v2)
	vndAssume(vndAnd(k1[0] != ':', k2[0] != ':'))
	f, err := NewFilter(h07Quote(k1) + ":" + h07Quote(v1) + " OR " + h07Quote(k2) + ":" + h07Quote(v2))
	vndAssert(err == nil, "two-quoted-terms-parse")
	if err != nil {
		return
	}
	vndReach("h07:two-terms")
	// a result that satisfies only the second term
	res := h07Result(string(k2), string(v2))
	vndAssert(h07Match(f, res), "second-term-denotes-its-own-key-and-value")
	// and one that satisfies neither unless the terms coincide
	other := h07Result(string(k2), string(v2)+"x")
	sameTerm := vndAnd(string(k1) == string(k2), string(v1) == string(v2)+"x")
	vndAssert(h07Match(f, other) == sameTerm, "no-term-matches-a-different-value")
}

package benchfmt

// C01: benchmark records survive a write/read round trip.

import (
	"bytes"
	"math"
)

var h01Keys = []string{"a", "b", "c"}

// h01Values returns measurements as a Reader reports them, covering
// rescaled and plain units, zero, -0, +Inf and NaN.
func h01Values(which int) []Value {
	lines := []string{
		"BenchmarkV 1 1.5 ns/op 0 B/op 5 MB/s\n",
		"BenchmarkV 1 +Inf x NaN y -0 z 0 ns/op\n",
		"BenchmarkV 1 2 u\n",
	}
	r := NewReader(bytes.NewReader([]byte(lines[which%len(lines)])), "v")
	if !r.Scan() {
		panic("h01Values: no record")
	}
	res := r.Result().(*Result)
	vals := append([]Value(nil), res.Values...)
	// values built through the API (not obtained from the parser under test): full-precision
	// floats whose shortest decimal has 16-17 digits, plain and rescaled
	vals = append(vals, Value{Value: 15.832827774512765, Unit: "w"})
	vals = append(vals, Value{Value: math.Inf(-1), Unit: "v"}, Value{Value: math.Copysign(0, -1), Unit: "vv"})
	ov := []float64{94.17601719804103, 940497473450.9459, 0.30000000000000004}[which%3]
	vals = append(vals, Value{Value: ov * 1e-9, Unit: "sec/w", OrigValue: ov, OrigUnit: "ns/w"})
	return vals
}

func h01SameFloat(a, b float64) bool {
	return (a == b && math.Signbit(a) == math.Signbit(b)) || (a != a && b != b)
}

// h01Written returns the value/unit pair as it was written.
func h01Written(v Value) (float64, string) {
	if v.OrigUnit != "" {
		return v.OrigValue, v.OrigUnit
	}
	return v.Value, v.Unit
}

func h01ReadAll(text []byte) (results []*Result, metas []*UnitMetadata, nErr int) {
	r := NewReader(bytes.NewReader(text), "rt")
	for r.Scan() {
		switch rec := r.Result().(type) {
		case *Result:
			results = append(results, rec.Clone())
		case *UnitMetadata:
			metas = append(metas, rec)
		case *SyntaxError:
			nErr++
		}
	}
	return
}

// H01History: n results over k keys, each key absent / file / internal with
// an arbitrary value byte at every step, built fresh or edited in place.
func H01History() {
	n, k := vndParam("n"), vndParam("k")
	inPlace := vndParam("inplace") == 1
	state := make([][]int, n)
	val := make([][]byte, n)
	var inputs []*Result
	evolving := &Result{}
	var buf bytes.Buffer
	w := NewWriter(&buf)
	for i := 0; i < n; i++ {
		state[i] = make([]int, k)
		val[i] = make([]byte, k)
		var res *Result
		if inPlace {
			res = evolving
		} else {
			res = &Result{}
		}
		for j := 0; j < k; j++ {
			state[i][j] = vndInt("state", 0, 2)
			if state[i][j] != 0 {
				val[i][j] = vndByte("val")
				vndAssume(vndAnd(val[i][j] > ' ', val[i][j] < 0x7f))
			}
			v := string(val[i][j : j+1])
			switch state[i][j] {
			case 0:
				if inPlace {
					res.SetConfig(h01Keys[j], "")
				}
			case 1:
				if inPlace {
					cfg := res.ensureConfig(h01Keys[j], true)
					cfg.Value = append(cfg.Value[:0], v...)
				} else {
					res.Config = append(res.Config, Config{Key: h01Keys[j], Value: []byte(v), File: true})
				}
			case 2:
				if inPlace {
					res.SetConfig(h01Keys[j], v)
				} else {
					res.Config = append(res.Config, Config{Key: h01Keys[j], Value: []byte(v), File: false})
				}
			}
		}
		res.Name = Name([]byte{'N', '0' + byte(i)})
		res.Iters = 10 + i
		res.Values = h01Values(i)
		if err := w.Write(res); err != nil {
			vndAssert(false, "write-no-error")
			return
		}
		inputs = append(inputs, res.Clone())
	}
	got, _, nErr := h01ReadAll(buf.Bytes())
	vndReach("h01:history-written")
	vndAssert(nErr == 0, "output-has-no-syntax-errors")
	vndAssert(len(got) == n, "same-number-of-results")
	if len(got) != n {
		return
	}
	for i := 0; i < n; i++ {
		in, out := inputs[i], got[i]
		vndAssert(string(out.Name) == string(in.Name) && out.Iters == in.Iters, "same-name-and-iterations")
		vndAssert(len(out.Values) == len(in.Values), "same-measurement-count")
		for m := 0; m < len(in.Values) && m < len(out.Values); m++ {
			iv, iu := h01Written(in.Values[m])
			ov, ou := h01Written(out.Values[m])
			vndAssert(h01SameFloat(iv, ov) && iu == ou, "same-measurement-as-written")
			vndAssert(h01SameFloat(in.Values[m].Value, out.Values[m].Value) && in.Values[m].Unit == out.Values[m].Unit, "same-normalised-measurement")
		}
		// configuration as a key -> value mapping equals the file entries
		for j := 0; j < k; j++ {
			g := out.GetConfig(h01Keys[j])
			switch state[i][j] {
			case 1:
				vndReach("h01:file-key")
				vndAssert(g == string(val[i][j:j+1]), "file-configuration-read-back")
			case 2:
				vndReach("h01:internal-key")
				vndAssert(g == "", "internal-configuration-never-reappears")
			default:
				vndAssert(g == "", "absent-key-stays-absent")
			}
		}
		vndAssert(len(out.Config) <= k, "no-foreign-keys")
		for _, c := range out.Config {
			vndAssert(c.File, "read-back-configuration-is-file-configuration")
		}
	}
	vndObserveBytes("out", buf.Bytes())
}

// H01Reparse: parse text -> write -> parse again gives the same records.
func H01Reparse() {
	n := vndParam("lines")
	var text []byte
	for i := 0; i < n; i++ {
		key := vndByte("key")
		vndAssume(vndAnd(key >= 'a', key <= 'b'))
		if vndBool("set") {
			v := vndByte("val")
			vndAssume(vndAnd(v > ' ', v < 0x7f))
			text = append(text, key, ':', ' ', v, '\n')
		} else {
			text = append(text, key, ':', '\n')
		}
		if i == n/2 {
			text = append(text, "BenchmarkA 1 1.5 ns/op 0 MB/s\nUnit ns/op better=lower\n"...)
		}
	}
	text = append(text, "BenchmarkB-8 2 NaN x -0 y\n"...)
	r1, m1, e1 := h01ReadAll(text)
	vndAssert(e1 == 0 && len(r1) == 2 && len(m1) == 1, "input-parses")
	var buf bytes.Buffer
	w := NewWriter(&buf)
	// records in stream order: result A, metadata, result B
	w.Write(r1[0])
	w.Write(m1[0])
	w.Write(r1[1])
	r2, m2, e2 := h01ReadAll(buf.Bytes())
	vndReach("h01:reparsed")
	vndAssert(e2 == 0, "output-has-no-syntax-errors")
	vndAssert(len(r2) == len(r1) && len(m2) == len(m1), "same-record-counts")
	if len(r2) != len(r1) || len(m2) != len(m1) {
		return
	}
	for i := range r1 {
		a, b := r1[i], r2[i]
		vndAssert(string(a.Name) == string(b.Name) && a.Iters == b.Iters && len(a.Values) == len(b.Values), "same-result")
		for m := range a.Values {
			av, au := h01Written(a.Values[m])
			bv, bu := h01Written(b.Values[m])
			vndAssert(h01SameFloat(av, bv) && au == bu, "same-measurement-as-written")
		}
		for _, key := range []string{"a", "b"} {
			vndAssert(a.GetConfig(key) == b.GetConfig(key), "same-file-configuration")
		}
		vndAssert(len(a.Config) == len(b.Config), "same-configuration-size")
	}
	vndAssert(m1[0].OrigUnit == m2[0].OrigUnit && m1[0].Key == m2[0].Key && m1[0].Value == m2[0].Value && m1[0].Unit == m2[0].Unit, "same-unit-metadata")
	vndObserveBytes("out", buf.Bytes())
}

// H01Files: the stream the tools read — several input files through one Files/Reader, each
// with its own unit-metadata lines (repeated, conflicting or new across the files) — is
// written and read back: same results, same unit-metadata records in the same order.
func H01Files() {
	var paths []string
	for k := 0; k < 2; k++ {
		var text []byte
		if vndBool("unit-line") {
			text = append(text, "Unit ns/op better="...)
			if vndBool("higher") {
				text = append(text, "higher"...)
			} else {
				text = append(text, "lower"...)
			}
			text = append(text, '\n')
		}
		text = append(text, "BenchmarkA 1 1.5 ns/op\n"...)
		if vndBool("second-unit-line") {
			text = append(text, "Unit widgets assume=exact\n"...)
		}
		name := string([]byte{'f', '1' + byte(k)})
		vndFile(name, text)
		paths = append(paths, name)
	}
	f := &Files{Paths: paths}
	var buf bytes.Buffer
	w := NewWriter(&buf)
	var results []*Result
	var metas []*UnitMetadata
	for f.Scan() {
		switch rec := f.Result().(type) {
		case *Result:
			results = append(results, rec.Clone())
			w.Write(rec)
		case *UnitMetadata:
			metas = append(metas, rec)
			w.Write(rec)
		}
	}
	vndReach("h01:files")
	vndAssert(f.Err() == nil && len(results) == 2, "both-files-are-read")
	r2, m2, e2 := h01ReadAll(buf.Bytes())
	vndAssert(e2 == 0, "output-has-no-syntax-errors")
	vndAssert(len(r2) == len(results), "same-record-counts")
	vndAssert(len(m2) == len(metas), "same-unit-metadata-records")
	for i := 0; i < len(metas) && i < len(m2); i++ {
		vndAssert(metas[i].Unit == m2[i].Unit && metas[i].Key == m2[i].Key && metas[i].Value == m2[i].Value, "same-unit-metadata")
	}
	for i := 0; i < len(results) && i < len(r2); i++ {
		vndAssert(results[i].GetConfig(".file") == "f"+string([]byte{'1' + byte(i)}), "result-carries-its-file-label")
		vndAssert(r2[i].GetConfig(".file") == "", "internal-label-is-not-written")
	}
	vndObserveBytes("out", buf.Bytes())
}

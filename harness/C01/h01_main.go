package main

// C01, the tool: the real benchfilter main() (flag parsing, Files over the os.Open stub,
// filter, Writer on standard output) copies an input with unit metadata, configuration
// changes and deletions, and rescaled and plain measurements; what it writes, read back,
// is the input's record stream (for the match-everything filter) or its filtered
// sub-stream, unit metadata included, without the tool's own .file label.

import (
	"bytes"
	"flag"
	"math"
	"os"

	"golang.org/x/perf/benchfmt"
)

var h01Out []byte

// engine-side replacements (spec "stubs"); natively the real functions run
func h01FileWrite(f *os.File, p []byte) (int, error) {
	if f == os.Stdout {
		h01Out = append(h01Out, p...)
	}
	return len(p), nil
}
func h01LogSetPrefix(string) {}
func h01LogSetFlags(int)     {}

type h01Rec struct {
	kind   string // "result" or "unit"
	name   string
	iters  int
	vals   string
	config string
	unit   string
}

func h01Stream(text []byte) []h01Rec {
	var out []h01Rec
	r := benchfmt.NewReader(bytes.NewReader(text), "x")
	for r.Scan() {
		switch rec := r.Result().(type) {
		case *benchfmt.Result:
			h := h01Rec{kind: "result", name: string(rec.Name), iters: rec.Iters}
			for _, v := range rec.Values {
				u, x := v.Unit, v.Value
				if v.OrigUnit != "" {
					u, x = v.OrigUnit, v.OrigValue
				}
				h.vals += u + "=" + string(benchfmtFloat(x)) + ";"
			}
			// file configuration as a mapping: keys in sorted order a, b, c
			for _, k := range []string{"a", "b", "c", ".file"} {
				pos, ok := rec.ConfigIndex(k)
				if ok && rec.Config[pos].File {
					h.config += k + "=" + string(rec.Config[pos].Value) + ";"
				}
			}
			out = append(out, h)
		case *benchfmt.UnitMetadata:
			out = append(out, h01Rec{kind: "unit", unit: rec.Unit + " " + rec.Key + "=" + rec.Value})
		}
	}
	return out
}

// benchfmtFloat renders a concrete float for comparison (bit pattern in hex).
func benchfmtFloat(x float64) []byte {
	const hexd = "0123456789abcdef"
	b := math.Float64bits(x)
	out := make([]byte, 16)
	for i := 15; i >= 0; i-- {
		out[i] = hexd[b&15]
		b >>= 4
	}
	return out
}

func H01Main() {
	query := []string{"*", "a:x", "-.unit:ns/op"}[vndParam("query")]
	v1, v2 := vndByte("v1"), vndByte("v2")
	vndAssume(vndAnd(vndAnd(v1 >= 'x', v1 <= 'y'), vndAnd(v2 >= 'x', v2 <= 'y')))
	var in []byte
	in = append(in, "Unit ns/op better=lower\nUnit widgets assume=exact\na: "...)
	in = append(in, v1, '\n')
	in = append(in, "b: p\nBenchmarkOne-8 10 1.5 ns/op 0 B/op 3 widgets\nb:\nc: q\na: "...)
	in = append(in, v2, '\n')
	in = append(in, "BenchmarkTwo 20 0 ns/op 5 MB/s\nUnit MB/s better=higher\nBenchmarkOne-8 30 2.5 ns/op\n"...)
	vndFile("in.txt", in)

	h01Out = nil
	os.Args = []string{"benchfilter", "--", query, "in.txt"}
	flag.CommandLine = flag.NewFlagSet("benchfilter", flag.ContinueOnError)
	var out []byte
	if vndNative() {
		f, err := os.CreateTemp("", "h01out")
		if err != nil {
			panic(err)
		}
		saved := os.Stdout
		os.Stdout = f
		main()
		os.Stdout = saved
		f.Close()
		out, _ = os.ReadFile(f.Name())
		os.Remove(f.Name())
	} else {
		main()
		out = h01Out
	}
	vndReach("h01:main")

	want := h01Stream(in)
	got := h01Stream(out)
	// reference filtering
	var exp []h01Rec
	for _, r := range want {
		if r.kind == "unit" {
			exp = append(exp, r)
			continue
		}
		switch vndParam("query") {
		case 1:
			// a:x keeps results whose configuration has a = x
			keep := false
			for i := 0; i+3 < len(r.config); i++ {
				if r.config[i:i+4] == "a=x;" && (i == 0 || r.config[i-1] == ';') {
					keep = true
				}
			}
			if !keep {
				continue
			}
		case 2:
			// -.unit:ns/op drops the ns/op measurements (and results left without any)
			vals := ""
			for _, part := range bytes.Split([]byte(r.vals), []byte(";")) {
				if len(part) > 0 && !bytes.HasPrefix(part, []byte("ns/op=")) {
					vals += string(part) + ";"
				}
			}
			if vals == "" {
				continue
			}
			r.vals = vals
		}
		exp = append(exp, r)
	}
	vndAssert(len(got) == len(exp), "same-number-of-records")
	if len(got) != len(exp) {
		return
	}
	for i := range exp {
		g, e := got[i], exp[i]
		vndAssert(g.kind == e.kind, "same-record-kinds-in-order")
		if e.kind == "unit" {
			vndAssert(g.unit == e.unit, "same-unit-metadata")
			continue
		}
		vndAssert(g.name == e.name && g.iters == e.iters, "same-name-and-iterations")
		vndAssert(g.vals == e.vals, "same-measurement-as-written")
		vndAssert(g.config == e.config, "file-configuration-read-back")
	}
	vndObserveBytes("out", out)
}

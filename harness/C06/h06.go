package benchproc

// C06: filters keep exactly the measurements their boolean meaning denotes.
// The expression is generated from an index (concrete per job); the result
// it is evaluated on is symbolic.

import (
	"strings"

	"golang.org/x/perf/benchfmt"
)

type h06Node struct {
	kind  int // 0 leaf, 1 not, 2 and, 3 or
	leaf  int
	kids  []*h06Node
	style int // and: 0 = juxtaposition, 1 = explicit AND
}

type h06Gen struct{ idx uint64 }

func (g *h06Gen) next(base int) int {
	r := int(g.idx % uint64(base))
	g.idx /= uint64(base)
	return r
}

const h06NumLeaves = 18

func (g *h06Gen) gen(depth int) *h06Node {
	k := g.next(6)
	if depth == 0 && k >= 2 {
		k = k % 2
	}
	switch k {
	case 0, 1:
		return &h06Node{kind: 0, leaf: g.next(h06NumLeaves)}
	case 2:
		return &h06Node{kind: 1, kids: []*h06Node{g.gen(depth - 1)}}
	case 3:
		return &h06Node{kind: 2, style: g.next(2), kids: []*h06Node{g.gen(depth - 1), g.gen(depth - 1)}}
	case 4:
		return &h06Node{kind: 3, kids: []*h06Node{g.gen(depth - 1), g.gen(depth - 1)}}
	}
	return &h06Node{kind: 2, style: g.next(2), kids: []*h06Node{g.gen(depth - 1), g.gen(depth - 1), g.gen(depth - 1)}}
}

var h06LeafText = [h06NumLeaves]string{
	`a:x`, `b:y`, `.name:N`, `/s:1`, `.unit:U`, `.unit:V`, `*`, `a:(x OR z)`, `"a":"x"`, `.unit:(U OR V)`, `a:""`, `.fullname:"N/s=1"`, `c:(/x/ OR /q/)`, `c:(/q/ OR /r/)`, `c:/^x$/`,
	// regexps on a key no result carries: the extracted value is the empty string
	`d:/^$/`, `d:(y OR /^(q)?$/)`, `d:/./`,
}

func (n *h06Node) render(sb *strings.Builder) {
	switch n.kind {
	case 0:
		sb.WriteString(h06LeafText[n.leaf])
	case 1:
		sb.WriteByte('-')
		if n.kids[0].kind >= 2 {
			sb.WriteByte('(')
			n.kids[0].render(sb)
			sb.WriteByte(')')
		} else {
			n.kids[0].render(sb)
		}
	case 2:
		for i, k := range n.kids {
			if i > 0 {
				if n.style == 1 {
					sb.WriteString(" AND ")
				} else {
					sb.WriteByte(' ')
				}
			}
			if k.kind == 3 {
				sb.WriteByte('(')
				k.render(sb)
				sb.WriteByte(')')
			} else {
				k.render(sb)
			}
		}
	case 3:
		for i, k := range n.kids {
			if i > 0 {
				sb.WriteString(" OR ")
			}
			if k.kind == 3 {
				sb.WriteByte('(')
				k.render(sb)
				sb.WriteByte(')')
			} else {
				k.render(sb)
			}
		}
	}
}

// the symbolic result
type h06State struct {
	a, b, nm, s byte // config values (0 = key absent), name byte, sub-name value byte
	unit, orig  []byte
}

// ref evaluates the expression for measurement i under ordinary boolean
// semantics, without branching on symbolic values.
func (n *h06Node) ref(st *h06State, i int) bool {
	switch n.kind {
	case 0:
		u, o := st.unit[i], st.orig[i]
		switch n.leaf {
		case 0, 8:
			return st.a == 'x'
		case 1:
			return st.b == 'y'
		case 2:
			return st.nm == 'N'
		case 3:
			return st.s == '1'
		case 4:
			return vndOr(u == 'U', o == 'U')
		case 5:
			return vndOr(u == 'V', o == 'V')
		case 6:
			return true
		case 7:
			return vndOr(st.a == 'x', st.a == 'z')
		case 9:
			return vndOr(vndOr(u == 'U', o == 'U'), vndOr(u == 'V', o == 'V'))
		case 10:
			return st.a == 0
		case 11:
			return vndAnd(st.nm == 'N', st.s == '1')
		case 12, 14: // regexp terms on the key c, whose value is the concrete "x"
			return true
		case 13, 17:
			return false
		case 15, 16:
			return true
		}
		panic("bad leaf")
	case 1:
		return !n.kids[0].ref(st, i)
	case 2:
		r := true
		for _, k := range n.kids {
			r = vndAnd(r, k.ref(st, i))
		}
		return r
	}
	r := false
	for _, k := range n.kids {
		r = vndOr(r, k.ref(st, i))
	}
	return r
}

func h06Build(st *h06State) *benchfmt.Result {
	res := &benchfmt.Result{Iters: 1}
	res.Name = benchfmt.Name([]byte{st.nm, '/', 's', '=', st.s})
	if st.a != 0 {
		res.SetConfig("a", string([]byte{st.a}))
	}
	if st.b != 0 {
		res.SetConfig("b", string([]byte{st.b}))
	}
	res.SetConfig("c", "x") // concrete: regexp leaves are matched natively
	for i := range st.unit {
		v := benchfmt.Value{Value: float64(i), Unit: string([]byte{st.unit[i]})}
		if st.orig[i] != 0 {
			v.OrigUnit = string([]byte{st.orig[i]})
			v.OrigValue = float64(i)
		}
		res.Values = append(res.Values, v)
	}
	return res
}

// h06Symbolic makes the state. For large measurement counts only the
// positions around the mask word boundaries are symbolic.
func h06Symbolic(nv int) *h06State {
	st := &h06State{a: vndByte("a"), b: vndByte("b"), nm: vndByte("nm"), s: vndByte("s")}
	vndAssume(st.nm != '/' && st.nm != '-' && st.s != '/' && st.s != '-' && !('0' <= st.s && st.s <= '9' && st.s != '1'))
	st.unit = make([]byte, nv)
	st.orig = make([]byte, nv)
	for i := 0; i < nv; i++ {
		sym := nv <= 3 || i == 31 || i == nv-1
		if sym {
			st.unit[i] = vndByte("unit")
			vndAssume(st.unit[i] != 0)
			if vndBool("hasorig") {
				st.orig[i] = vndByte("orig")
				vndAssume(st.orig[i] != 0)
			}
		} else {
			st.unit[i] = 'W'
		}
	}
	return st
}

func H06Filter() {
	nv := vndParam("nv")
	g := &h06Gen{idx: uint64(vndParam("expr"))}
	if vndParam("depth") >= 2 {
		// the depth-2 space is too large to enumerate: indices are scattered over it
		g.idx = g.idx*0x9E3779B97F4A7C15 + 0x1234567
	}
	tree := g.gen(vndParam("depth"))
	var sb strings.Builder
	tree.render(&sb)
	expr := sb.String()

	f, err := NewFilter(expr)
	if err != nil {
		panic("generated expression does not parse: " + expr + ": " + err.Error())
	}
	st := h06Symbolic(nv)
	res := h06Build(st)
	before := res.Clone()

	m, err := f.Match(res)
	vndAssert(err == nil, "match-no-error")
	vndReach("h06:matched")

	all, any := true, false
	for i := 0; i < nv; i++ {
		want := tree.ref(st, i)
		vndAssert(m.Test(i) == want, "test-equals-boolean-meaning")
		all = vndAnd(all, want)
		any = vndOr(any, want)
	}
	vndAssert(!m.Test(-1) && !m.Test(nv), "test-out-of-range-false")
	vndAssert(m.All() == all, "all-consistent")
	vndAssert(m.Any() == any, "any-consistent")

	// Match leaves the result untouched.
	same := len(res.Values) == len(before.Values) && string(res.Name) == string(before.Name)
	for i := 0; same && i < nv; i++ {
		same = res.Values[i].Unit == before.Values[i].Unit && res.Values[i].Value == before.Values[i].Value && res.Values[i].OrigUnit == before.Values[i].OrigUnit
	}
	vndAssert(same, "match-leaves-result-untouched")

	// Apply keeps exactly the matching measurements, in order.
	kept, err := f.Apply(res)
	vndAssert(err == nil, "apply-no-error")
	vndAssert(kept == any, "apply-reports-any")
	j := 0
	for i := 0; i < nv; i++ {
		if m.Test(i) { // equals the reference by the assertion above
			ok := j < len(res.Values) && res.Values[j].Value == float64(i) && res.Values[j].Unit == before.Values[i].Unit
			vndAssert(ok, "apply-keeps-matching-in-order")
			j++
		}
	}
	vndAssert(len(res.Values) == j, "apply-keeps-only-matching")
	vndObserveStr("expr", expr)
	vndObserveInt("kept", len(res.Values))
}

// H06Fixed: a projection with a fixed value list removes exactly the results
// whose value is not in the list, conjoined with the caller's filter.
func H06Fixed() {
	st := h06Symbolic(vndParam("nv"))
	res := h06Build(st)
	filter, err := NewFilter(".unit:U")
	if err != nil {
		panic(err)
	}
	var pp ProjectionParser
	if _, err := pp.Parse("a@(x z),b", filter); err != nil {
		panic(err)
	}
	inList := vndOr(st.a == 'x', st.a == 'z')
	m, _ := filter.Match(res)
	any := false
	for i := range st.unit {
		want := vndAnd(inList, vndOr(st.unit[i] == 'U', st.orig[i] == 'U'))
		vndAssert(m.Test(i) == want, "fixed-list-conjoined-with-filter")
		any = vndOr(any, want)
	}
	vndReach("h06:fixed")
	kept, _ := filter.Apply(res)
	vndAssert(kept == any, "fixed-list-apply")
	vndObserveInt("kept", len(res.Values))
}

// h06Parse parses one of the generator's expressions back into its tree (the hand-picked
// history expressions are written as generator trees so that the reference is shared).
func h06Leaf(l int) *h06Node { return &h06Node{kind: 0, leaf: l} }
func h06Not(k *h06Node) *h06Node { return &h06Node{kind: 1, kids: []*h06Node{k}} }
func h06And(k ...*h06Node) *h06Node { return &h06Node{kind: 2, style: 1, kids: k} }
func h06Or(k ...*h06Node) *h06Node  { return &h06Node{kind: 3, kids: k} }

func h06HistoryTree(i int) *h06Node {
	switch i {
	case 0:
		return h06Not(h06Leaf(4)) // -.unit:U
	case 1:
		return h06Not(h06Leaf(9)) // -.unit:(U OR V)
	case 2:
		return h06And(h06Leaf(0), h06Not(h06Leaf(4))) // a:x AND -.unit:U
	case 3:
		return h06Leaf(4)
	case 4:
		return h06Or(h06Leaf(5), h06Leaf(0)) // .unit:V OR a:x
	case 5:
		return h06Not(h06And(h06Leaf(0), h06Leaf(5))) // -(a:x AND .unit:V)
	case 6:
		return h06And(h06Not(h06Leaf(4)), h06Not(h06Leaf(5)))
	case 7:
		return h06Or(h06Not(h06Leaf(4)), h06Leaf(1))
	case 8:
		return h06Leaf(15) // d:/^$/ on results without the key d
	case 9:
		return h06And(h06Not(h06Leaf(16)), h06Leaf(4))
	case 10:
		return h06Or(h06Leaf(17), h06Leaf(5))
	case 11:
		return h06And(h06Leaf(16), h06Not(h06Leaf(5)))
	}
	g := &h06Gen{idx: uint64(i)*0x9E3779B97F4A7C15 + 0x7654321}
	return g.gen(2)
}

// H06History: one Filter object evaluates a sequence of results: R1, R1 again (a fresh
// Result with the same contents), R2 (same configuration, other units), R1 once more.
// Every answer equals the boolean meaning for that result alone: nothing carries over
// from one result to the next.
func H06History() {
	tree := h06HistoryTree(vndParam("hexpr"))
	var sb strings.Builder
	tree.render(&sb)
	expr := sb.String()
	f, err := NewFilter(expr)
	if err != nil {
		panic("generated expression does not parse: " + expr + ": " + err.Error())
	}
	nv := 2
	// symbolic: the key a, and the second measurement's unit and written unit in both results
	st1 := &h06State{a: vndByte("a"), b: 'y', nm: 'N', s: '1', unit: []byte{'W', vndByte("unit")}, orig: []byte{0, 0}}
	vndAssume(st1.unit[1] != 0)
	if vndBool("hasorig") {
		st1.orig[1] = vndByte("orig")
		vndAssume(st1.orig[1] != 0)
	}
	st2 := &h06State{a: st1.a, b: st1.b, nm: st1.nm, s: st1.s, unit: []byte{'W', vndByte("unit2")}, orig: []byte{0, 0}}
	vndAssume(st2.unit[1] != 0)
	if vndBool("sameorig") {
		st2.orig[1] = st1.orig[1] // the same written unit as the first result's measurement (or none)
	}
	seq := []*h06State{st1, st1, st2, st1}
	for step, st := range seq {
		res := h06Build(st)
		m, err := f.Match(res)
		vndAssert(err == nil, "match-no-error")
		any := false
		for i := 0; i < nv; i++ {
			want := tree.ref(st, i)
			vndAssert(m.Test(i) == want, "history-test-equals-boolean-meaning-of-this-result")
			any = vndOr(any, want)
		}
		kept, err := f.Apply(res)
		vndAssert(err == nil, "apply-no-error")
		vndAssert(kept == any, "history-apply-reports-any")
		j := 0
		for i := 0; i < nv; i++ {
			if tree.ref(st, i) {
				ok := j < len(res.Values) && res.Values[j].Value == float64(i)
				vndAssert(ok, "history-apply-keeps-matching-in-order")
				j++
			}
		}
		vndAssert(len(res.Values) == j, "history-apply-keeps-only-matching")
		if step == 1 {
			vndReach("h06:history")
		}
	}
	vndObserveStr("expr", expr)
}

// H06FixedHistory: a projection with a fixed value list, together with the caller's filter,
// evaluated on one Result that is edited in place from step to step (the way a Reader reuses
// its Result: the key's value buffer is overwritten by a value of the same length). Each
// verdict is that of the current value alone.
func H06FixedHistory() {
	filter, err := NewFilter("*")
	if err != nil {
		panic(err)
	}
	var pp ProjectionParser
	if _, err := pp.Parse("a@(xx zz)", filter); err != nil {
		panic(err)
	}
	res := &benchfmt.Result{Iters: 1, Name: benchfmt.Name("N")}
	res.Values = []benchfmt.Value{{Value: 1, Unit: "u"}}
	steps := vndParam("steps")
	for k := 0; k < steps; k++ {
		c := vndByte("v")
		vndAssume(vndOr(vndOr(c == 'x', c == 'z'), c == 'q'))
		// overwrite the value in place, as benchfmt.Reader does
		res.SetConfig("a", string([]byte{c, c}))
		m, err := filter.Match(res)
		vndAssert(err == nil, "match-no-error")
		inList := vndOr(c == 'x', c == 'z')
		vndAssert(m.Test(0) == inList, "fixed-list-verdict-is-that-of-the-current-value")
	}
	vndReach("h06:fixed-history")
}

// H06FixedMore: (a) an expression that is rejected leaves the caller's filter as it was,
// even when an earlier part of it carried a fixed value list; (b) a fixed value list on
// .fullname, .name and a sub-name key removes exactly the results whose value is not listed.
func H06FixedMore() {
	st := h06Symbolic(1)
	res := h06Build(st)
	full := string([]byte{st.nm, '/', 's', '=', st.s})
	// (a)
	filter, err := NewFilter("*")
	if err != nil {
		panic(err)
	}
	var pp ProjectionParser
	for _, bad := range []string{"a@(x z),b@bogus", "a@(x z),.unit", "a@(x z) .config@(p q)", "a@(x z),c@()"} {
		if _, err := pp.Parse(bad, filter); err == nil {
			vndAssert(false, "invalid-projection-rejected")
		}
	}
	m, _ := filter.Match(res)
	vndAssert(m.Test(0), "rejected-expression-leaves-the-filter-unchanged")
	// (b)
	which := vndParam("key")
	expr := []string{`.fullname@("N/s=1" "Q/s=2")`, `.name@(N Q)`, `/s@(1 2)`}[which]
	f2, _ := NewFilter("*")
	var pp2 ProjectionParser
	if _, err := pp2.Parse(expr, f2); err != nil {
		panic(err)
	}
	var want bool
	switch which {
	case 0:
		want = vndOr(full == "N/s=1", full == "Q/s=2")
	case 1:
		want = vndOr(st.nm == 'N', st.nm == 'Q')
	default:
		want = vndOr(st.s == '1', st.s == '2')
	}
	m2, _ := f2.Match(res)
	vndReach("h06:fixed-more")
	vndAssert(m2.Test(0) == want, "fixed-list-removes-exactly-the-unlisted")
}

package db

// C20 (partial): uploads are all-or-nothing under faults, upload IDs are never reused.
//
// Environment model. The database is a *transactional store* behind the database/sql API:
// effects of a transaction become visible at a successful Commit and never otherwise;
// every operation that reaches the database (Begin, Exec, Query, Commit) is a numbered
// fault point and the failAt-th one fails (failAt is a symbolic input: the solver chooses
// the crash point). The real code of this package (NewUpload, InsertRecord, insertLabel,
// flush, insertMultiple, Commit, Abort) runs unchanged on top of it.
//
// In the engine the database/sql entry points used by this package are replaced by the
// H20SQL* functions below (spec.json "stubs"); natively the same store sits behind a
// database/sql/driver registered as "vndfake", so that the replay and the translator
// validation go through the real database/sql. SQL text is interpreted only as far as
// this package's own statements go; anything else is reported as unmodelled.

import (
	"context"
	"database/sql"
	"database/sql/driver"
	"errors"
	"io"
	"strings"
	"time"
)

type H20Upload struct {
	ID, Day string
	Seq     int64
}
type H20Record struct {
	Upload  string
	ID      int64
	Content string
}
type H20Label struct {
	Upload      string
	Rec         int64
	Name, Value string
}
type H20Tables struct {
	Uploads []H20Upload
	Records []H20Record
	Labels  []H20Label
}

type H20Txn struct {
	pend H20Tables
	done bool
}

type H20Store struct {
	H20Tables         // committed state
	Ops        int    // fault points passed since the store was armed
	FailAt     int    // the FailAt-th fault point fails; 0: none
	Failed     bool   // a fault was injected
	FaultOp    string // which operation
	Unmodelled string // first statement outside the model
	OpenTx     int    // transactions begun and neither committed nor rolled back
	MaxArgs    int    // largest number of bound parameters seen in one statement
}

// H20 is the store behind every connection.
var H20 *H20Store

func H20Reset() *H20Store {
	H20 = &H20Store{}
	h20stmts, h20txs, h20rows = nil, nil, nil
	if !vndNative() {
		// database/sql's own initialiser is outside the engine's model
		sql.ErrNoRows = errors.New("sql: no rows in result set")
		sql.ErrTxDone = errors.New("sql: transaction has already been committed or rolled back")
	}
	return H20
}

var errH20Fault = errors.New("h20: injected database fault")

func (s *H20Store) fault(what string) error {
	s.Ops++
	if s.Ops == s.FailAt {
		s.Failed = true
		s.FaultOp = what
		return errH20Fault
	}
	return nil
}

func (s *H20Store) begin() (*H20Txn, error) {
	if err := s.fault("begin"); err != nil {
		return nil, err
	}
	s.OpenTx++
	return &H20Txn{}, nil
}

func h20str(v interface{}) (string, bool) {
	switch x := v.(type) {
	case string:
		return x, true
	case []byte:
		return string(x), true
	}
	return "", false
}

func h20int(v interface{}) (int64, bool) {
	switch x := v.(type) {
	case int64:
		return x, true
	case int:
		return int64(x), true
	}
	return 0, false
}

func (s *H20Store) unmodelled(q string) error {
	if s.Unmodelled == "" {
		s.Unmodelled = q
	}
	return errors.New("h20: statement outside the model: " + q)
}

func (s *H20Store) haveUpload(tx *H20Txn, id string) bool {
	for _, u := range s.Uploads {
		if u.ID == id {
			return true
		}
	}
	for _, u := range tx.pend.Uploads {
		if u.ID == id {
			return true
		}
	}
	return false
}

func (s *H20Store) exec(tx *H20Txn, query string, args []interface{}) error {
	q := strings.TrimSpace(query)
	if strings.HasPrefix(q, "CREATE ") {
		return nil // schema set-up, before the store is armed
	}
	if err := s.fault("exec"); err != nil {
		return err
	}
	if tx == nil {
		// an autocommitted statement: only the removal of an upload row is modelled
		if q == "DELETE FROM Uploads WHERE UploadID = ?" && len(args) == 1 {
			id, ok := h20str(args[0])
			if !ok {
				return errors.New("h20: bad UploadID type")
			}
			for _, r := range s.Records {
				if r.Upload == id {
					return errors.New("h20: FOREIGN KEY constraint failed: Records.UploadID")
				}
			}
			for k, u := range s.Uploads {
				if u.ID == id {
					s.Uploads = append(append([]H20Upload(nil), s.Uploads[:k]...), s.Uploads[k+1:]...)
					break
				}
			}
			return nil
		}
		return s.unmodelled("(outside a transaction) " + q)
	}
	if tx.done {
		return sql.ErrTxDone
	}
	if strings.Count(q, "?") != len(args) {
		return errors.New("h20: parameter count does not match the statement")
	}
	if len(args) > s.MaxArgs {
		s.MaxArgs = len(args)
	}
	if len(args) > 999 {
		return errors.New("h20: too many SQL variables") // sqlite3's limit, named in insertLabel
	}
	switch {
	case strings.HasPrefix(q, "INSERT INTO Uploads(UploadID, Day, Seq) VALUES"):
		if len(args) != 3 {
			return errors.New("h20: bad Uploads row")
		}
		id, ok1 := h20str(args[0])
		day, ok2 := h20str(args[1])
		seq, ok3 := h20int(args[2])
		if !ok1 || !ok2 || !ok3 {
			return errors.New("h20: bad Uploads row types")
		}
		if s.haveUpload(tx, id) {
			return errors.New("h20: UNIQUE constraint failed: Uploads.UploadID")
		}
		tx.pend.Uploads = append(tx.pend.Uploads, H20Upload{id, day, seq})
	case strings.HasPrefix(q, "INSERT INTO Records(UploadID, RecordID, Content) VALUES "):
		if len(args) == 0 || len(args)%3 != 0 {
			return errors.New("h20: bad Records rows")
		}
		for k := 0; k < len(args); k += 3 {
			up, ok1 := h20str(args[k])
			id, ok2 := h20int(args[k+1])
			c, ok3 := h20str(args[k+2])
			if !ok1 || !ok2 || !ok3 {
				return errors.New("h20: bad Records row types")
			}
			if !s.haveUpload(tx, up) {
				return errors.New("h20: FOREIGN KEY constraint failed: Records.UploadID")
			}
			for _, r := range s.Records {
				if r.Upload == up && r.ID == id {
					return errors.New("h20: UNIQUE constraint failed: Records")
				}
			}
			for _, r := range tx.pend.Records {
				if r.Upload == up && r.ID == id {
					return errors.New("h20: UNIQUE constraint failed: Records")
				}
			}
			tx.pend.Records = append(tx.pend.Records, H20Record{up, id, c})
		}
	case strings.HasPrefix(q, "INSERT INTO RecordLabels VALUES "):
		if len(args) == 0 || len(args)%4 != 0 {
			return errors.New("h20: bad RecordLabels rows")
		}
		for k := 0; k < len(args); k += 4 {
			up, ok1 := h20str(args[k])
			id, ok2 := h20int(args[k+1])
			n, ok3 := h20str(args[k+2])
			v, ok4 := h20str(args[k+3])
			if !ok1 || !ok2 || !ok3 || !ok4 {
				return errors.New("h20: bad RecordLabels row types")
			}
			found := false
			for _, r := range s.Records {
				if r.Upload == up && r.ID == id {
					found = true
				}
			}
			for _, r := range tx.pend.Records {
				if r.Upload == up && r.ID == id {
					found = true
				}
			}
			if !found {
				return errors.New("h20: FOREIGN KEY constraint failed: RecordLabels")
			}
			tx.pend.Labels = append(tx.pend.Labels, H20Label{up, id, n, v})
		}
	default:
		return s.unmodelled(q)
	}
	return nil
}

// queryLast models "SELECT UploadID FROM Uploads ORDER BY Day DESC, Seq DESC LIMIT 1".
func (s *H20Store) queryLast(tx *H20Txn, query string) (string, bool, error) {
	if err := s.fault("query"); err != nil {
		return "", false, err
	}
	q := strings.TrimSuffix(strings.TrimSpace(query), " FOR UPDATE")
	if q != "SELECT UploadID FROM Uploads ORDER BY Day DESC, Seq DESC LIMIT 1" {
		return "", false, s.unmodelled(q)
	}
	if tx != nil && tx.done {
		return "", false, sql.ErrTxDone
	}
	var best *H20Upload
	consider := func(u *H20Upload) {
		if best == nil || u.Day > best.Day || (u.Day == best.Day && u.Seq > best.Seq) {
			best = u
		}
	}
	for k := range s.Uploads {
		consider(&s.Uploads[k])
	}
	if tx != nil {
		for k := range tx.pend.Uploads {
			consider(&tx.pend.Uploads[k])
		}
	}
	if best == nil {
		return "", false, nil
	}
	return best.ID, true, nil
}

func (s *H20Store) commit(tx *H20Txn) error {
	if tx.done {
		return sql.ErrTxDone
	}
	tx.done = true
	s.OpenTx--
	if err := s.fault("commit"); err != nil {
		tx.pend = H20Tables{} // a failed commit leaves nothing behind
		return err
	}
	s.Uploads = append(s.Uploads, tx.pend.Uploads...)
	s.Records = append(s.Records, tx.pend.Records...)
	s.Labels = append(s.Labels, tx.pend.Labels...)
	tx.pend = H20Tables{}
	return nil
}

func (s *H20Store) rollback(tx *H20Txn) error {
	if tx.done {
		return sql.ErrTxDone
	}
	tx.done = true
	s.OpenTx--
	tx.pend = H20Tables{}
	return nil
}

// RecordsOf returns the committed records of an upload.
func (s *H20Store) RecordsOf(upload string) []H20Record {
	var out []H20Record
	for _, r := range s.Records {
		if r.Upload == upload {
			out = append(out, r)
		}
	}
	return out
}

// LabelOf returns the committed value of label name of record (upload, rec).
func (s *H20Store) LabelOf(upload string, rec int64, name string) (string, int) {
	v, n := "", 0
	for _, l := range s.Labels {
		if l.Upload == upload && l.Rec == rec && l.Name == name {
			v = l.Value
			n++
		}
	}
	return v, n
}

// ---------------------------------------------------------------- engine side: database/sql entry points

type h20stmtInfo struct {
	st    *sql.Stmt
	query string
	tx    *H20Txn
}
type h20txInfo struct {
	tx  *sql.Tx
	txn *H20Txn
}
type h20rowInfo struct {
	row *sql.Row
	id  string
	ok  bool
	err error
}

var (
	h20stmts []h20stmtInfo
	h20txs   []h20txInfo
	h20rows  []h20rowInfo
)

func h20stmt(st *sql.Stmt) *h20stmtInfo {
	for k := range h20stmts {
		if h20stmts[k].st == st {
			return &h20stmts[k]
		}
	}
	panic("h20: unknown statement")
}

func h20txn(tx *sql.Tx) *H20Txn {
	for k := range h20txs {
		if h20txs[k].tx == tx {
			return h20txs[k].txn
		}
	}
	panic("h20: unknown transaction")
}

func H20SQLOpen(driverName, dsn string) (*sql.DB, error) { return new(sql.DB), nil }

func H20CreateTables(d *DB, driverName string) error { return nil } // text/template is outside the engine's model

func H20SQLPrepare(d *sql.DB, query string) (*sql.Stmt, error) {
	st := new(sql.Stmt)
	h20stmts = append(h20stmts, h20stmtInfo{st: st, query: query})
	return st, nil
}

func H20SQLBegin(d *sql.DB) (*sql.Tx, error) {
	txn, err := H20.begin()
	if err != nil {
		return nil, err
	}
	tx := new(sql.Tx)
	h20txs = append(h20txs, h20txInfo{tx, txn})
	return tx, nil
}

func H20SQLTxStmt(tx *sql.Tx, st *sql.Stmt) *sql.Stmt {
	n := new(sql.Stmt)
	h20stmts = append(h20stmts, h20stmtInfo{st: n, query: h20stmt(st).query, tx: h20txn(tx)})
	return n
}

func H20SQLStmtQueryRow(st *sql.Stmt, args []interface{}) *sql.Row {
	info := h20stmt(st)
	r := new(sql.Row)
	id, ok, err := H20.queryLast(info.tx, info.query)
	h20rows = append(h20rows, h20rowInfo{r, id, ok, err})
	return r
}

func H20SQLRowScan(r *sql.Row, dest []interface{}) error {
	for k := range h20rows {
		if h20rows[k].row == r {
			ri := h20rows[k]
			if ri.err != nil {
				return ri.err
			}
			if !ri.ok {
				return sql.ErrNoRows
			}
			p, ok := dest[0].(*string)
			if !ok || len(dest) != 1 {
				return errors.New("h20: unsupported Scan destination")
			}
			*p = ri.id
			return nil
		}
	}
	panic("h20: unknown row")
}

func H20SQLStmtExec(st *sql.Stmt, args []interface{}) (sql.Result, error) {
	info := h20stmt(st)
	return nil, H20.exec(info.tx, info.query, args)
}

func H20SQLTxExec(tx *sql.Tx, query string, args []interface{}) (sql.Result, error) {
	return nil, H20.exec(h20txn(tx), query, args)
}

func H20SQLDBExec(d *sql.DB, query string, args []interface{}) (sql.Result, error) {
	return nil, H20.exec(nil, query, args)
}

func H20SQLTxCommit(tx *sql.Tx) error   { return H20.commit(h20txn(tx)) }
func H20SQLTxRollback(tx *sql.Tx) error { return H20.rollback(h20txn(tx)) }

// ---------------------------------------------------------------- native side: the same store as a database/sql driver

type h20Driver struct{}
type h20Conn struct{ txn *H20Txn }
type h20DTx struct{ c *h20Conn }
type h20DStmt struct {
	c *h20Conn
	q string
}
type h20DRows struct {
	id   string
	ok   bool
	done bool
}

func init() { sql.Register("vndfake", h20Driver{}) }

func (h20Driver) Open(name string) (driver.Conn, error) { return &h20Conn{}, nil }
func (c *h20Conn) Prepare(q string) (driver.Stmt, error) {
	return &h20DStmt{c, q}, nil
}
func (c *h20Conn) Close() error { return nil }
func (c *h20Conn) Begin() (driver.Tx, error) {
	txn, err := H20.begin()
	if err != nil {
		return nil, err
	}
	c.txn = txn
	return &h20DTx{c}, nil
}
func (t *h20DTx) Commit() error {
	txn := t.c.txn
	t.c.txn = nil
	return H20.commit(txn)
}
func (t *h20DTx) Rollback() error {
	txn := t.c.txn
	t.c.txn = nil
	return H20.rollback(txn)
}
func (s *h20DStmt) Close() error  { return nil }
func (s *h20DStmt) NumInput() int { return -1 }
func (s *h20DStmt) Exec(args []driver.Value) (driver.Result, error) {
	a := make([]interface{}, len(args))
	for k, v := range args {
		a[k] = v
	}
	if err := H20.exec(s.c.txn, s.q, a); err != nil {
		return nil, err
	}
	return driver.RowsAffected(0), nil
}
func (s *h20DStmt) Query(args []driver.Value) (driver.Rows, error) {
	id, ok, err := H20.queryLast(s.c.txn, s.q)
	if err != nil {
		return nil, err
	}
	return &h20DRows{id: id, ok: ok}, nil
}
func (r *h20DRows) Columns() []string { return []string{"UploadID"} }
func (r *h20DRows) Close() error      { return nil }
func (r *h20DRows) Next(dest []driver.Value) error {
	if !r.ok || r.done {
		return io.EOF
	}
	r.done = true
	dest[0] = r.id
	return nil
}

// H20Open opens this package's DB on the store: the real OpenSQL, statement preparation included.
func H20Open() *DB {
	d, err := OpenSQL("vndfake", "")
	if err != nil {
		panic("h20: OpenSQL: " + err.Error())
	}
	return d
}

// H20SetDay pins this package's clock to noon of 2026-09-<18+k>.
func H20SetDay(k int) {
	t, err := time.Parse("2006-01-02 15:04", "2026-09-"+string([]byte{'0' + byte((18+k)/10), '0' + byte((18+k)%10)})+" 12:00")
	if err != nil {
		panic(err)
	}
	now = func() time.Time { return t }
}

// ---------------------------------------------------------------- harness: upload IDs

// H20IDs: a history of NewUpload calls, each followed by a commit, an abort or nothing, on
// days that never go backwards, with one database fault at a solver-chosen point. Every ID
// handed out has the form YYYYMMDD.N for the current day, no ID is handed out twice, and
// IDs increase with creation order within a day.
func H20IDs() {
	n := vndParam("uploads")
	st := H20Reset()
	d := H20Open()
	st.FailAt = vndInt("failAt", 0, 6*n)
	day := 0
	var ids []string
	var days []int
	var seqs []int
	for k := 0; k < n; k++ {
		if k > 0 && vndBool("nextday") {
			day++
		}
		H20SetDay(day)
		u, err := d.NewUpload(context.Background())
		if err != nil {
			vndAssert(st.Failed, "new_upload_fails_only_on_a_database_fault")
			continue
		}
		vndReach("h20:id")
		want := "202609" + string([]byte{'0' + byte((18+day)/10), '0' + byte((18+day)%10)}) + "."
		vndAssert(strings.HasPrefix(u.ID, want), "id_has_the_form_YYYYMMDD_dot_N_of_the_current_day")
		seq, ok := 0, len(u.ID) > len(want)
		for _, c := range []byte(u.ID[len(want):]) {
			if c < '0' || c > '9' {
				ok = false
				break
			}
			seq = seq*10 + int(c-'0')
		}
		vndAssert(ok && seq >= 1 && u.ID[len(want)] != '0', "id_has_the_form_YYYYMMDD_dot_N_of_the_current_day")
		for j := range ids {
			vndAssert(ids[j] != u.ID, "upload_id_never_reused")
			if days[j] == day {
				vndAssert(seqs[j] < seq, "ids_increase_with_creation_order_within_a_day")
			}
		}
		ids, days, seqs = append(ids, u.ID), append(days, day), append(seqs, seq)
		vndObserveStr("id", u.ID)
		switch vndChoice("then", 3) {
		case 0:
			if err := u.Commit(); err != nil {
				vndAssert(st.Failed, "commit_fails_only_on_a_database_fault")
				u.Abort()
			}
		case 1:
			u.Abort()
			vndReach("h20:aborted")
		default:
			// left open (a client that went away); its transaction stays pending
		}
	}
	vndAssert(st.Unmodelled == "", "statements_within_the_model")
}

package app

// C20 (partial): the upload handler's all-or-nothing behaviour under a single fault at a
// solver-chosen point. The real processUpload/indexFile, the real storage/benchfmt reader,
// the real db.NewUpload/InsertRecord/flush/Commit/Abort and the real fs.MemFS run; the
// environment is modelled (see h20_db.go for the database):
//   - the multipart body is a list of parts; natively it is a real multipart stream whose
//     underlying reader breaks with io.ErrUnexpectedEOF at the chosen offset, in the engine
//     (*multipart.Reader).NextPart and (*multipart.Part).Read/FormName/FileName are replaced
//     by the H20* functions below;
//   - the file store is fs.MemFS behind a wrapper that can fail one NewWriter, one Write (at
//     a byte offset) or one Close.

import (
	"bytes"
	"context"
	"errors"
	"fmt"
	"io"
	"mime/multipart"
	"os"
	"strings"

	"golang.org/x/perf/storage/db"
	"golang.org/x/perf/storage/fs"
	"golang.org/x/perf/storage/fs/local"
)

// ---------------------------------------------------------------- request body

type h20Part struct {
	form, file string
	content    []byte
}

type h20BodyT struct {
	parts   []h20Part
	cutPart int // the body breaks in this part; -1: complete body
	cutAt   int // at this offset of the part's content; -1: inside the part's header
	inLine  bool // the stream ENDS (clean EOF) right after the boundary token that introduces cutPart, before the end of that line
	next    int
	open    []h20OpenPart
	cutHit  bool
}

type h20OpenPart struct {
	p   *multipart.Part
	idx int
	off int
}

var h20Body *h20BodyT

func H20NextPart(mr *multipart.Reader) (*multipart.Part, error) {
	b := h20Body
	if b.next >= len(b.parts) {
		return nil, io.EOF
	}
	if b.next == b.cutPart && b.inLine {
		// what mime/multipart does when the boundary line is incomplete at a clean end of the stream
		b.cutHit = true
		return nil, fmt.Errorf("multipart: NextPart: %w", io.EOF)
	}
	if b.next == b.cutPart && b.cutAt < 0 {
		b.cutHit = true
		return nil, io.ErrUnexpectedEOF
	}
	p := new(multipart.Part)
	b.open = append(b.open, h20OpenPart{p, b.next, 0})
	b.next++
	return p, nil
}

func h20open(p *multipart.Part) *h20OpenPart {
	for k := range h20Body.open {
		if h20Body.open[k].p == p {
			return &h20Body.open[k]
		}
	}
	panic("h20: unknown part")
}

func H20FormName(p *multipart.Part) string { return h20Body.parts[h20open(p).idx].form }
func H20FileName(p *multipart.Part) string { return h20Body.parts[h20open(p).idx].file }

func H20PartRead(p *multipart.Part, buf []byte) (int, error) {
	o := h20open(p)
	b := h20Body
	content := b.parts[o.idx].content
	end := len(content)
	cut := o.idx == b.cutPart && b.cutAt >= 0
	if cut && b.cutAt < end {
		end = b.cutAt
	}
	if o.off >= end {
		if cut {
			b.cutHit = true
			return 0, io.ErrUnexpectedEOF
		}
		return 0, io.EOF
	}
	n := copy(buf, content[o.off:end])
	o.off += n
	return n, nil
}

// h20BrokenReader yields data and then the transport's error.
type h20BrokenReader struct {
	data []byte
	off  int
	b    *h20BodyT
}

func (r *h20BrokenReader) Read(p []byte) (int, error) {
	if r.off >= len(r.data) {
		r.b.cutHit = true
		return 0, io.ErrUnexpectedEOF
	}
	n := copy(p, r.data[r.off:])
	r.off += n
	return n, nil
}

// h20Reader returns the multipart reader the handler is given.
func h20Reader(b *h20BodyT) *multipart.Reader {
	h20Body = b
	if !vndNative() {
		return new(multipart.Reader)
	}
	var buf bytes.Buffer
	w := multipart.NewWriter(&buf)
	w.SetBoundary("h20boundary")
	cutOff := -1
	cleanEOF := false
	for k, p := range b.parts {
		hdrStart := buf.Len()
		var pw io.Writer
		if p.form == "file" || p.file != "" {
			pw, _ = w.CreateFormFile(p.form, p.file)
		} else {
			pw, _ = w.CreateFormField(p.form)
		}
		if k == b.cutPart && b.inLine {
			// keep the boundary token, drop the rest of its line
			cutOff = hdrStart + len("\r\n--h20boundary")
			if k == 0 {
				cutOff = hdrStart + len("--h20boundary")
			}
			cleanEOF = true
		} else if k == b.cutPart {
			if b.cutAt < 0 {
				// after the boundary line, a few bytes into the part's header
				cutOff = hdrStart + len("\r\n--h20boundary\r\n") + 10
				if k == 0 {
					cutOff = hdrStart + len("--h20boundary\r\n") + 10
				}
			} else {
				cutOff = buf.Len() + b.cutAt
				if b.cutAt > len(p.content) {
					cutOff = buf.Len() + len(p.content)
				}
			}
		}
		pw.Write(p.content)
	}
	w.Close()
	if cutOff >= 0 && cleanEOF {
		b.cutHit = true // the stream is short from the start
		return multipart.NewReader(bytes.NewReader(buf.Bytes()[:cutOff]), "h20boundary")
	}
	if cutOff >= 0 {
		return multipart.NewReader(&h20BrokenReader{data: buf.Bytes()[:cutOff], b: b}, "h20boundary")
	}
	return multipart.NewReader(bytes.NewReader(buf.Bytes()), "h20boundary")
}

// ---------------------------------------------------------------- file store

var errH20FS = errors.New("h20: injected file store fault")

type h20FS struct {
	inner       *fs.MemFS
	failCreate  int // index (creation order since arming) of the NewWriter that fails; -1: none
	failWriteIn int // index of the writer with a failing Write; -1: none
	failWriteAt int // the Write that would take that file beyond this many bytes fails
	failClose   int // index of the writer whose Close fails; -1: none
	created     int
	faulted     bool
	writers     []*h20Writer // since arming
	all         []*h20Writer
}

type h20Writer struct {
	fs     *h20FS
	idx    int
	name   string
	w      fs.Writer
	n      int
	data   []byte // bytes accepted so far
	stored bool   // Close succeeded
	closed bool // Close or CloseWithError was called
}

func h20NewFS() *h20FS {
	return &h20FS{inner: fs.NewMemFS(), failCreate: -1, failWriteIn: -1, failClose: -1}
}

func (f *h20FS) NewWriter(ctx context.Context, name string, meta map[string]string) (fs.Writer, error) {
	idx := f.created
	f.created++
	if idx == f.failCreate {
		f.faulted = true
		return nil, errH20FS
	}
	w, err := f.inner.NewWriter(ctx, name, meta)
	if err != nil {
		return nil, err
	}
	hw := &h20Writer{fs: f, idx: idx, name: name, w: w}
	f.writers = append(f.writers, hw)
	f.all = append(f.all, hw)
	return hw, nil
}

func (w *h20Writer) Write(p []byte) (int, error) {
	if w.idx == w.fs.failWriteIn && w.n+len(p) > w.fs.failWriteAt {
		w.fs.faulted = true
		return 0, errH20FS
	}
	n, err := w.w.Write(p)
	w.n += n
	w.data = append(w.data, p[:n]...)
	return n, err
}

func (w *h20Writer) Close() error {
	w.closed = true
	if w.idx == w.fs.failClose {
		w.fs.faulted = true
		w.w.CloseWithError(errH20FS) // a failed close stores nothing
		return errH20FS
	}
	err := w.w.Close()
	if err == nil {
		w.stored = true
	}
	return err
}

func (w *h20Writer) CloseWithError(err error) error {
	w.closed = true
	return w.w.CloseWithError(err)
}

func h20Infof(ctx context.Context, format string, args []interface{}) {}

// ---------------------------------------------------------------- upload contents

// h20File builds an uploaded file: two results under "key: v1", then one under "key: v2".
// head is the first byte of the first benchmark line ('B' makes it one).
func h20File(tag byte, v1, v2, head byte) []byte {
	var b []byte
	b = append(b, "key: "...)
	b = append(b, v1, '\n')
	b = append(b, head)
	b = append(b, "enchmarkF"...)
	b = append(b, tag)
	b = append(b, " 1 5 ns/op\nBenchmarkF"...)
	b = append(b, tag)
	b = append(b, " 1 6 ns/op\nkey: "...)
	b = append(b, v2, '\n')
	b = append(b, "BenchmarkF"...)
	b = append(b, tag)
	b = append(b, " 1 7 ns/op\n"...)
	return b
}

func h20Shape(shape int) (parts []h20Part, reject bool) {
	file := func(tag byte, name string) h20Part {
		v1, v2 := vndByte("v1"), vndByte("v2")
		vndAssume(vndAnd(vndAnd(v1 >= 'a', v1 <= 'c'), vndAnd(v2 >= 'a', v2 <= 'c')))
		return h20Part{"file", name, h20File(tag, v1, v2, 'B')}
	}
	switch shape {
	case 0:
		parts = []h20Part{file('0', "a.txt")}
	case 1:
		parts = []h20Part{file('0', "a.txt"), file('1', "dir/b.txt")}
	case 2: // client commit
		parts = []h20Part{file('0', "a.txt"), {"commit", "", []byte("1")}}
	case 3: // a file without benchmark lines
		parts = []h20Part{file('0', "a.txt"), {"file", "n.txt", []byte("key: v\nnot a benchmark\n")}}
		reject = true
	case 4: // client abort: a field the server rejects
		parts = []h20Part{file('0', "a.txt"), {"abort", "", []byte("1")}}
		reject = true
	case 5: // unexpected field first
		parts = []h20Part{{"bogus", "", []byte("x")}, file('0', "a.txt")}
		reject = true
	case 6: // nothing to store
		parts = []h20Part{{"commit", "", []byte("1")}}
		reject = true
	case 7:
		parts = []h20Part{file('0', ""), file('1', `c:\x\y.txt`), file('2', "z.txt")}
	case 8: // first line's first byte decides whether the only file has a benchmark line
		head := vndByte("head")
		parts = []h20Part{{"file", "h.txt", []byte("key: k\n" + string([]byte{head}) + "enchmarkH 1 5 ns/op\n")}}
		reject = head != 'B'
	case 9: // client commit followed by the abort field (what the client sends when closing the form fails)
		parts = []h20Part{file('0', "a.txt"), {"commit", "", []byte("1")}, {"abort", "", []byte("1")}}
		reject = true
	case 10: // client commit followed by a file without benchmark lines
		parts = []h20Part{file('0', "a.txt"), {"commit", "", []byte("1")}, {"file", "n.txt", []byte("nothing here\n")}}
		reject = true
	case 11: // client commit followed by another valid file
		parts = []h20Part{file('0', "a.txt"), {"commit", "", []byte("1")}, file('1', "b.txt")}
	case 12: // many differently labelled results: the label queue is flushed in the middle of a record
		n := 30 + vndChoice("results", 12)
		var content []byte
		for i := 0; i < n; i++ {
			content = append(content, "key: v"...)
			content = append(content, '0'+byte(i/10), '0'+byte(i%10), '\n')
			content = append(content, "BenchmarkM 1 5 ns/op\n"...)
		}
		parts = []h20Part{{"file", "many.txt", content}}
	case 13: // a label added between two results of one benchmark: two records, the second carries it
		parts = []h20Part{{"file", "add.txt", []byte("key: k\nBenchmarkS 1 5 ns/op\nnote: x\nBenchmarkS 1 6 ns/op\n")}}
	case 15: // as 12, but every result is repeated (go test -count=2): the flush in the middle of a record is followed by a result with identical labels
		n := 36 + vndChoice("results", 6)
		var content []byte
		for i := 0; i < n; i++ {
			content = append(content, "key: v"...)
			content = append(content, '0'+byte(i/10), '0'+byte(i%10), '\n')
			content = append(content, "BenchmarkM 1 5 ns/op\nBenchmarkM 1 6 ns/op\n"...)
		}
		parts = []h20Part{{"file", "twice.txt", content}}
	case 14: // a file without a name after a named one
		parts = []h20Part{file('0', "a.txt"), file('1', ""), file('2', "z.txt")}
	default:
		panic("h20: no such shape")
	}
	return
}

type h20Env struct {
	st  *db.H20Store
	d   *db.DB
	fs  *h20FS
	app *App
}

func h20Setup() *h20Env {
	st := db.H20Reset()
	db.H20SetDay(0)
	d := db.H20Open()
	hfs := h20NewFS()
	return &h20Env{st, d, hfs, &App{DB: d, FS: hfs}}
}

// h20Baseline performs one fault-free upload and returns its ID.
func (e *h20Env) h20Baseline() string {
	body := &h20BodyT{parts: []h20Part{{"file", "base.txt", h20File('9', 'x', 'y', 'B')}}, cutPart: -1}
	stt, err := e.app.processUpload(context.Background(), "user", h20Reader(body))
	if err != nil || stt == nil {
		panic("h20: baseline upload failed")
	}
	return stt.UploadID
}

// h20FileStored reports whether the store holds a file of that name, and the bytes its writer accepted.
func h20FileStored(f *h20FS, name string) ([]byte, bool) {
	for _, n := range f.inner.Files() {
		if n == name {
			for _, w := range f.all {
				if w.name == name && w.stored {
					return w.data, true
				}
			}
			return nil, true
		}
	}
	return nil, false
}

// H20Upload: one upload of the given shape after a successful baseline upload, with one
// fault of the given kind at a solver-chosen position.
func H20Upload() {
	shape := vndParam("shape")
	kind := vndParam("fault") // 0 none, 1 database, 2 create, 3 write, 4 close, 5 body breaks in content, 6 in a part header, 7 clean end inside a boundary line
	e := h20Setup()
	baseID := e.h20Baseline()
	baseRecords := len(e.st.Records)
	baseLabels := len(e.st.Labels)
	baseFiles := e.fs.inner.Files()
	baseContent, _ := h20FileStored(e.fs, baseFiles[0])
	e.fs.created, e.fs.writers = 0, nil

	parts, reject := h20Shape(shape)
	body := &h20BodyT{parts: parts, cutPart: -1}
	nfiles := 0
	for _, p := range parts {
		if p.form == "file" {
			nfiles++
		}
	}
	switch kind {
	case 1:
		e.st.Ops = 0
		e.st.FailAt = vndInt("failAt", 1, 14)
	case 2:
		e.fs.failCreate = vndInt("failCreate", 0, nfiles-1)
	case 3:
		e.fs.failWriteIn = vndInt("failWriteIn", 0, nfiles-1)
		e.fs.failWriteAt = vndInt("failWriteAt", 0, 200)
	case 4:
		e.fs.failClose = vndInt("failClose", 0, nfiles-1)
	case 5:
		body.cutPart = vndInt("cutPart", 0, len(parts)-1)
		body.cutAt = vndInt("cutAt", 0, len(parts[vndConcretize(body.cutPart)].content))
	case 6:
		body.cutPart = vndInt("cutPart", 0, len(parts)-1)
		body.cutAt = -1
	case 7:
		// the stream ends cleanly inside the boundary line that would introduce a further part
		body.cutPart = vndInt("cutPart", 1, len(parts)-1)
		body.inLine = true
	}
	e.st.Ops = 0

	stt, err := e.app.processUpload(context.Background(), "user", h20Reader(body))
	fired := e.st.Failed || e.fs.faulted || body.cutHit
	vndReach("h20:upload")
	if fired {
		vndReach("h20:fault-fired")
	}
	vndObserveBool("ok", err == nil)
	vndAssert(e.st.Unmodelled == "", "statements_within_the_model")

	// what is queryable now, beyond the baseline upload
	var newRecs []db.H20Record
	for _, r := range e.st.Records {
		if r.Upload != baseID {
			newRecs = append(newRecs, r)
		}
	}

	// earlier successful uploads are unaffected
	vndAssert(len(e.st.RecordsOf(baseID)) == baseRecords, "earlier_upload_keeps_its_records")
	vndAssert(len(e.st.Labels)-h20CountLabelsNot(e.st, baseID) == baseLabels, "earlier_upload_keeps_its_labels")
	bc, bok := h20FileStored(e.fs, baseFiles[0])
	vndAssert(bok && bytes.Equal(bc, baseContent), "earlier_upload_keeps_its_file")

	// every writer was closed one way or the other; exactly the cleanly closed ones are stored
	for _, w := range e.fs.writers {
		vndAssert(w.closed, "file_writer_closed_on_every_path")
		_, present := h20FileStored(e.fs, w.name)
		vndAssert(present == w.stored, "file_stored_exactly_when_its_close_succeeded")
	}

	if err != nil || fired || reject {
		vndReach("h20:failed")
		vndAssert(err != nil, "failed_step_is_reported")
		vndAssert(len(newRecs) == 0, "no_record_of_a_failed_upload_is_queryable")
		vndAssert(h20CountLabelsNot(e.st, baseID) == 0, "no_label_of_a_failed_upload_is_queryable")
		// the file being written when the failure happened is removed
		if n := len(e.fs.writers); n > 0 && (err != nil) {
			last := e.fs.writers[n-1]
			if !last.stored {
				_, present := h20FileStored(e.fs, last.name)
				vndAssert(!present, "file_being_written_at_the_failure_is_removed")
			}
		}
		return
	}

	// success: every record of every file is queryable, each file stored once with the metadata header
	vndReach("h20:succeeded")
	vndAssert(stt != nil && stt.UploadID != "" && stt.UploadID != baseID, "success_reports_a_fresh_upload_id")
	if stt == nil {
		return
	}
	id := stt.UploadID
	vndAssert(len(stt.FileIDs) == nfiles, "success_reports_one_file_id_per_file")
	for _, r := range newRecs {
		vndAssert(r.Upload == id, "records_belong_to_the_reported_upload")
	}
	wantContent := ""
	fi := 0
	for pi, p := range parts {
		if p.form != "file" {
			continue
		}
		partID := id + "/" + string([]byte{'0' + byte(pi)})
		vndAssert(fi < len(stt.FileIDs) && stt.FileIDs[fi] == partID, "file_ids_are_upload_id_slash_part_index")
		fi++
		for _, line := range strings.Split(string(p.content), "\n") {
			if strings.HasPrefix(line, "Benchmark") {
				wantContent += line + "\n"
			}
		}
		stored, present := h20FileStored(e.fs, "uploads/"+partID+".txt")
		vndAssert(present, "each_file_is_stored")
		if present {
			vndAssert(bytes.HasSuffix(stored, append([]byte("\n\n"), p.content...)), "stored_file_ends_with_the_uploaded_bytes")
			hdr := string(stored[:len(stored)-len(p.content)])
			vndAssert(strings.Contains(hdr, "upload: "+id+"\n") && strings.Contains(hdr, "upload-part: "+partID+"\n") &&
				strings.Contains(hdr, "by: user\n") && strings.Contains(hdr, "upload-time: "), "stored_file_starts_with_the_metadata_header")
		}
	}
	vndAssert(len(e.fs.inner.Files()) == len(baseFiles)+nfiles, "each_file_is_stored_once")
	got := ""
	for k, r := range newRecs {
		for _, line := range strings.Split(r.Content, "\n") {
			if strings.HasPrefix(line, "Benchmark") {
				got += line + "\n"
			}
		}
		vndAssert(r.ID == int64(k), "record_ids_count_up_from_zero")
		v, n := e.st.LabelOf(id, r.ID, "upload")
		vndAssert(n == 1 && v == id, "every_record_carries_the_upload_label_once")
		_, n = e.st.LabelOf(id, r.ID, "upload-part")
		vndAssert(n == 1, "every_record_carries_the_upload_part_label_once")
		_, n = e.st.LabelOf(id, r.ID, "key")
		vndAssert(n == 1, "every_record_carries_its_file_label_once")
		_, n = e.st.LabelOf(id, r.ID, "name")
		vndAssert(n == 1, "every_record_carries_its_name_label_once")
	}
	vndAssert(got == wantContent, "every_benchmark_line_of_every_file_is_queryable_exactly_once_in_order")
	if shape == 13 {
		vndAssert(len(newRecs) == 2, "a_result_with_an_added_label_is_a_record_of_its_own")
		if len(newRecs) == 2 {
			_, n0 := e.st.LabelOf(id, newRecs[0].ID, "note")
			v1, n1 := e.st.LabelOf(id, newRecs[1].ID, "note")
			vndAssert(n0 == 0 && n1 == 1 && v1 == "x", "record_carries_the_file_configuration_in_force")
		}
	}
	if shape == 12 {
		// every result has its own label value: one record each, carrying that value
		want := strings.Count(wantContent, "\n")
		vndAssert(len(newRecs) == want, "differently_labelled_results_are_separate_records")
		for k, r := range newRecs {
			kv, _ := e.st.LabelOf(id, r.ID, "key")
			vndAssert(kv == "v"+string([]byte{'0' + byte(k/10), '0' + byte(k%10)}), "record_carries_the_file_configuration_in_force")
		}
		if e.st.MaxArgs >= 900 {
			vndReach("h20:label-queue-flushed")
		}
	}
	if shape == 15 {
		// each pair of results with identical labels is one record, except that a pair whose
		// labels were being queued when the label queue was flushed is stored as two (its record
		// row had been sent already); every record carries the label value of its own lines
		pairs := strings.Count(wantContent, "\n") / 2
		vndAssert(len(newRecs) >= pairs && len(newRecs) <= pairs+1, "results_with_identical_labels_are_coalesced")
		line := 0
		for _, r := range newRecs {
			kv, _ := e.st.LabelOf(id, r.ID, "key")
			pair := line / 2
			vndAssert(kv == "v"+string([]byte{'0' + byte(pair/10), '0' + byte(pair%10)}), "record_carries_the_file_configuration_in_force")
			line += strings.Count(r.Content, "BenchmarkM ")
		}
		if e.st.MaxArgs >= 900 {
			vndReach("h20:label-queue-flushed")
		}
	}
	// the file-name label the server adds belongs to the file the record came from: absent
	// for a file uploaded without a name, also when a named file precedes it
	for pi, p := range parts {
		if p.form != "file" {
			continue
		}
		partID := id + "/" + string([]byte{'0' + byte(pi)})
		for _, r := range newRecs {
			if v, _ := e.st.LabelOf(id, r.ID, "upload-part"); v == partID {
				fv, fn := e.st.LabelOf(id, r.ID, "upload-file")
				if p.file == "" {
					vndAssert(fn == 0, "record_of_an_unnamed_file_has_no_file_name_label")
				} else if !strings.ContainsAny(p.file, `/\`) {
					vndAssert(fn == 1 && fv == p.file, "record_carries_its_own_files_name")
				} else {
					vndAssert(fn == 1, "record_carries_its_own_files_name")
				}
			}
		}
	}
	// consecutive results with identical labels are one record: per file 1 or 2 records
	for pi, p := range parts {
		if p.form != "file" || len(p.content) < 40 || shape == 12 || shape == 13 || shape == 15 {
			continue
		}
		partID := id + "/" + string([]byte{'0' + byte(pi)})
		cnt := 0
		for _, r := range newRecs {
			if v, _ := e.st.LabelOf(id, r.ID, "upload-part"); v == partID {
				cnt++
				kv, _ := e.st.LabelOf(id, r.ID, "key")
				want := p.content[5]
				if cnt == 2 {
					want = p.content[len(p.content)-len("x\nBenchmarkF0 1 7 ns/op\n")]
				}
				vndAssert(len(kv) == 1 && kv[0] == want, "record_carries_the_file_configuration_in_force")
			}
		}
		same := p.content[5] == p.content[len(p.content)-len("x\nBenchmarkF0 1 7 ns/op\n")]
		vndAssert(cnt == vndIteInt(same, 1, 2), "consecutive_results_with_identical_labels_are_one_record")
	}
}

func h20CountLabelsNot(st *db.H20Store, upload string) int {
	n := 0
	for _, l := range st.Labels {
		if l.Upload != upload {
			n++
		}
	}
	return n
}

// ---------------------------------------------------------------- the local file store

// h20Rec records which files were created through a store and how each writer ended.
type h20Rec struct {
	inner fs.FS
	names []string
	ok    []bool // Close returned nil
}

type h20RecWriter struct {
	fs.Writer
	r *h20Rec
	k int
}

func (r *h20Rec) NewWriter(ctx context.Context, name string, meta map[string]string) (fs.Writer, error) {
	w, err := r.inner.NewWriter(ctx, name, meta)
	if err != nil {
		return nil, err
	}
	r.names = append(r.names, name)
	r.ok = append(r.ok, false)
	return &h20RecWriter{w, r, len(r.names) - 1}, nil
}

func (w *h20RecWriter) Close() error {
	err := w.Writer.Close()
	if err == nil {
		w.r.ok[w.k] = true
	}
	return err
}

func h20OnDisk(path string) ([]byte, bool) {
	f, err := os.Open(path)
	if err != nil {
		return nil, false
	}
	defer f.Close()
	var buf bytes.Buffer
	buf.ReadFrom(f)
	return buf.Bytes(), true
}

// H20Local: the same handler over the local-disk store (storage/fs/local) rooted in a
// directory other than the working directory: a file whose writing failed is gone from the
// disk, a stored file holds the metadata header and the uploaded bytes. Files live in the
// engine's in-memory file registry (os.Create/Write/Remove/Open), natively in a temporary
// directory.
func H20Local() {
	shape := vndParam("shape")
	kind := vndParam("fault") // 0 none, 1 database, 5 body breaks in content
	vndFile("cwd-marker", []byte("x")) // natively: makes a temporary directory the working directory
	st := db.H20Reset()
	db.H20SetDay(0)
	d := db.H20Open()
	rec := &h20Rec{inner: local.NewFS("store")}
	app := &App{DB: d, FS: rec}
	parts, reject := h20Shape(shape)
	body := &h20BodyT{parts: parts, cutPart: -1}
	switch kind {
	case 1:
		st.FailAt = vndInt("failAt", 1, 14)
	case 5:
		body.cutPart = vndInt("cutPart", 0, len(parts)-1)
		body.cutAt = vndInt("cutAt", 0, len(parts[vndConcretize(body.cutPart)].content))
	}
	stt, err := app.processUpload(context.Background(), "user", h20Reader(body))
	vndReach("h20:local")
	fired := st.Failed || body.cutHit
	if err != nil || fired || reject {
		vndAssert(err != nil, "failed_step_is_reported")
		if n := len(rec.names); n > 0 && !rec.ok[n-1] {
			vndReach("h20:local-removed")
			_, present := h20OnDisk("store/" + rec.names[n-1])
			vndAssert(!present, "file_being_written_at_the_failure_is_removed")
		}
		return
	}
	vndAssert(stt != nil, "success_reports_a_fresh_upload_id")
	fi := 0
	for _, p := range parts {
		if p.form != "file" {
			continue
		}
		vndAssert(fi < len(rec.names) && rec.ok[fi], "each_file_is_stored")
		if fi < len(rec.names) {
			got, present := h20OnDisk("store/" + rec.names[fi])
			vndAssert(present && bytes.HasSuffix(got, append([]byte("\n\n"), p.content...)), "stored_file_ends_with_the_uploaded_bytes")
		}
		fi++
	}
	vndAssert(fi == len(rec.names), "each_file_is_stored_once")
}

package benchproc

// C08: keys identify projected tuples; projections plus residue lose nothing.

import (
	"strings"

	"golang.org/x/perf/benchfmt"
)

type h08Res struct {
	a, b, c byte // file configuration values, 0 = key absent
	unit    byte
}

func h08Str(c byte) string {
	if c == 0 {
		return ""
	}
	return string([]byte{c})
}

func h08Build(s h08Res) *benchfmt.Result {
	res := &benchfmt.Result{Name: benchfmt.Name("B"), Iters: 1}
	for _, kv := range [][2]byte{{'a', s.a}, {'b', s.b}, {'c', s.c}} {
		if kv[1] != 0 {
			res.Config = append(res.Config, benchfmt.Config{Key: string(kv[:1]), Value: []byte{kv[1]}, File: true})
		}
	}
	u := "u"
	if s.unit != 0 {
		u = string([]byte{s.unit})
	}
	res.Values = []benchfmt.Value{{Value: 1, Unit: u}}
	return res
}

var h08Exprs = []string{"a,.config", ".config", ".config,a", "c,.config"}

// H08Identity: Key equality <=> equality of the projected values, across
// growth of the .config group; Get returns what was extracted.
func H08Identity() {
	vndHashUninterpreted(vndParam("uf") == 1)
	n := vndParam("results")
	cpat := vndParam("cpat") // bit i: result i has key c (symbolic value)
	withUnit := vndParam("unit") == 1
	var pp ProjectionParser
	var proj *Projection
	var err error
	expr := h08Exprs[vndParam("expr")]
	if withUnit {
		proj, _, err = pp.ParseWithUnit(expr, nil)
	} else {
		proj, err = pp.Parse(expr, nil)
	}
	if err != nil {
		panic(err)
	}
	st := make([]h08Res, n)
	keys := make([]Key, n)
	for i := 0; i < n; i++ {
		st[i].a, st[i].b = vndByte("a"), vndByte("b")
		if cpat&(1<<uint(i)) != 0 {
			st[i].c = vndByte("c")
			vndAssume(st[i].c != 0)
		}
		res := h08Build(st[i])
		if withUnit {
			st[i].unit = vndByte("unit")
			vndAssume(st[i].unit != 0)
			res.Values[0].Unit = string([]byte{st[i].unit})
			ks := proj.ProjectValues(res)
			vndAssert(len(ks) == 1, "one-key-per-measurement")
			keys[i] = ks[0]
		} else {
			keys[i] = proj.Project(res)
		}
	}
	vndReach("h08:projected")
	for i := 0; i < n; i++ {
		// Get returns exactly the extracted value, for keys made before and
		// after the group grew.
		for _, f := range proj.FlattenedFields() {
			var want string
			switch f.Name {
			case "a":
				want = h08Str(st[i].a)
			case "b":
				want = h08Str(st[i].b)
			case "c":
				want = h08Str(st[i].c)
			case ".unit":
				want = h08Str(st[i].unit)
			default:
				vndAssert(false, "unexpected-field")
			}
			vndAssert(keys[i].Get(f) == want, "get-returns-the-extracted-value")
		}
		// String and StringValues render exactly the non-empty values, in flattened field order
		wantS, wantV := "", ""
		for _, f := range proj.FlattenedFields() {
			if v := keys[i].Get(f); v != "" {
				if wantS != "" {
					wantS += " "
					wantV += " "
				}
				wantS += f.Name + ":" + v
				wantV += v
			}
		}
		vndAssert(keys[i].String() == wantS && keys[i].StringValues() == wantV, "string-renders-every-non-empty-value")
		for j := i + 1; j < n; j++ {
			same := vndAnd(vndAnd(st[i].a == st[j].a, st[i].b == st[j].b), vndAnd(st[i].c == st[j].c, st[i].unit == st[j].unit))
			vndAssert((keys[i] == keys[j]) == same, "keys-equal-iff-projected-values-equal")
			if keys[i] == keys[j] {
				vndReach("h08:equal-keys")
			}
		}
	}
	// every file key that some result carried has a field (the expressions project a and
	// the .config group, or the group alone)
	for _, kc := range []struct {
		name string
		seen func(r h08Res) byte
	}{{"a", func(r h08Res) byte { return r.a }}, {"b", func(r h08Res) byte { return r.b }}, {"c", func(r h08Res) byte { return r.c }}} {
		carried := false
		for i := 0; i < n; i++ {
			carried = vndOr(carried, kc.seen(st[i]) != 0)
		}
		has := false
		for _, f := range proj.FlattenedFields() {
			if f.Name == kc.name {
				has = true
			}
		}
		if kc.name == "a" && expr != ".config" {
			continue // a is a field of its own there, present from the start
		}
		vndAssert(vndOr(!carried, has), "every-projected-file-key-has-a-field")
	}
	// each field appears once in the flattened schema
	names := map[string]int{}
	for _, f := range proj.FlattenedFields() {
		names[f.Name]++
		vndAssert(names[f.Name] == 1, "each-key-is-one-field")
	}
	vndObserveInt("nfields", len(proj.FlattenedFields()))
}

// ---------------------------------------------------------------- exclusion and residue

type h08Name struct {
	nm, k, j, g byte // base byte, /k value, /kk value (0 = no such part), gomaxprocs digit (0 = none)
	a, b        byte // file configuration
}

func h08BuildName(s h08Name) *benchfmt.Result {
	name := []byte{s.nm}
	if s.k != 0 {
		name = append(name, '/', 'k', '=', s.k)
	}
	if s.j != 0 {
		name = append(name, '/', 'k', 'k', '=', s.j) // a key with the projected /k as a proper prefix
	}
	if s.g != 0 {
		name = append(name, '-', s.g)
	}
	res := &benchfmt.Result{Name: benchfmt.Name(name), Iters: 1}
	if s.a != 0 {
		res.Config = append(res.Config, benchfmt.Config{Key: "a", Value: []byte{s.a}, File: true})
	}
	if s.b != 0 {
		res.Config = append(res.Config, benchfmt.Config{Key: "b", Value: []byte{s.b}, File: true})
	}
	res.Values = []benchfmt.Value{{Value: 1, Unit: "u"}}
	return res
}

func h08NameByte(c byte) bool {
	// letters only: no '/', '-', '=', digits
	return vndOr(vndAnd(c >= 'a', c <= 'z'), vndAnd(c >= 'A', c <= 'Z'))
}

var h08Sets = [][]string{
	{".config", "a", ".fullname", "/k", ".name"},
	{"a", "/k"},
	{".fullname", "/k", "b"},
	{".config", ".name", "/gomaxprocs"},
	{"/gomaxprocs", "a"},
	{".fullname", "/gomaxprocs"},
	{".fullname", "/gomaxprocs", "/k"},
	{"/k", "/gomaxprocs", ".name"},
}

func h08Perm(n, idx int) []int {
	p := make([]int, n)
	for i := range p {
		p[i] = i
	}
	for i := n - 1; i > 0; i-- {
		j := idx % (i + 1)
		idx /= i + 1
		p[i], p[j] = p[j], p[i]
	}
	return p
}

// H08Exclusion: specific keys named in any projection are left out of the
// groups of all of them, in every parse order; with the residue nothing is
// lost.
func H08Exclusion() {
	set := h08Sets[vndParam("set")]
	perm := h08Perm(len(set), vndParam("perm"))
	var pp ProjectionParser
	projs := make([]*Projection, len(set))
	for _, pi := range perm {
		p, err := pp.Parse(set[pi], nil)
		if err != nil {
			panic(err)
		}
		projs[pi] = p
	}
	residue := pp.Residue()
	var st [2]h08Name
	var res [2]*benchfmt.Result
	for i := range st {
		s := &st[i]
		s.nm = vndByte("nm")
		if vndParam("set") >= 5 {
			// these sets name no configuration key: the file configuration is the same concrete one
			s.a, s.b = 'x', 0
		} else {
			s.a, s.b = vndByte("a"), vndByte("b")
		}
		vndAssume(h08NameByte(s.nm))
		if vndBool("hask") {
			s.k = vndByte("k")
			vndAssume(h08NameByte(s.k))
		}
		if vndBool("hasj") {
			s.j = vndByte("j")
			vndAssume(h08NameByte(s.j))
		}
		if vndBool("hasg") {
			s.g = vndByte("g")
			vndAssume(vndAnd(s.g >= '1', s.g <= '9'))
		}
		res[i] = h08BuildName(*s)
	}
	has := func(x string) bool {
		for _, e := range set {
			if e == x {
				return true
			}
		}
		return false
	}
	vndReach("h08:exclusion")
	agreeAll := true
	for pi, p := range projs {
		k0, k1 := p.Project(res[0]), p.Project(res[1])
		agreeAll = agreeAll && k0 == k1
		var want bool
		switch set[pi] {
		case ".config":
			want = st[0].b == st[1].b
			if !has("a") {
				want = vndAnd(want, st[0].a == st[1].a)
			}
			if has("b") {
				want = true
				if !has("a") {
					want = st[0].a == st[1].a
				}
			}
			for _, f := range p.FlattenedFields() {
				vndAssert(!has(f.Name), "specific-keys-left-out-of-dot-config")
			}
		case "a":
			want = st[0].a == st[1].a
		case "b":
			want = st[0].b == st[1].b
		case "/k":
			want = st[0].k == st[1].k
		case ".name":
			want = st[0].nm == st[1].nm
		case "/gomaxprocs":
			want = st[0].g == st[1].g
		case ".fullname":
			want = st[0].j == st[1].j
			if !has("/gomaxprocs") {
				want = vndAnd(want, st[0].g == st[1].g)
			}
			if !has(".name") {
				want = vndAnd(want, st[0].nm == st[1].nm)
			}
			if !has("/k") {
				want = vndAnd(want, st[0].k == st[1].k)
			}
		}
		vndAssert((k0 == k1) == want, "projection-distinguishes-exactly-its-own-keys")
		// NonSingularFields names exactly the differing fields
		ns := NonSingularFields([]Key{k0, k1})
		for _, f := range p.FlattenedFields() {
			differs := k0.Get(f) != k1.Get(f)
			listed := false
			for _, g := range ns {
				if g == f {
					listed = true
				}
			}
			vndAssert(listed == differs, "nonsingular-fields-are-exactly-the-differing-ones")
		}
	}
	r0, r1 := residue.Project(res[0]), residue.Project(res[1])
	agreeAll = agreeAll && r0 == r1
	same := vndAnd(vndAnd(st[0].a == st[1].a, st[0].b == st[1].b), vndAnd(vndAnd(st[0].nm == st[1].nm, st[0].k == st[1].k), vndAnd(st[0].j == st[1].j, st[0].g == st[1].g)))
	vndAssert(agreeAll == same, "projections-plus-residue-lose-nothing")
	for _, f := range residue.FlattenedFields() {
		vndAssert(!has(f.Name), "specific-keys-left-out-of-residue")
	}
	vndObserveBool("agree", agreeAll)
}

// H08Bucket: a projection on the single key a, n results with arbitrary values; the row
// hash is an uninterpreted function, so every way of distinct rows sharing a bucket is
// explored. A result projected again finds the key interned for its value, however many
// other rows share its bucket.
func H08Bucket() {
	vndHashUninterpreted(true)
	n := vndParam("results")
	var pp ProjectionParser
	proj, err := pp.Parse("a", nil)
	if err != nil {
		panic(err)
	}
	vals := make([]byte, n)
	keys := make([]Key, n)
	for i := 0; i < n; i++ {
		vals[i] = vndByte("a")
		vndAssume(vndAnd(vals[i] >= 'p', vals[i] <= 's'))
		keys[i] = proj.Project(h08Build(h08Res{a: vals[i]}))
	}
	vndReach("h08:bucket")
	f := proj.FlattenedFields()[0]
	distinct := 1
	for i := 0; i < n; i++ {
		vndAssert(keys[i].Get(f) == h08Str(vals[i]), "get-returns-the-extracted-value")
		first := true
		for j := 0; j < i; j++ {
			vndAssert((keys[i] == keys[j]) == (vals[i] == vals[j]), "keys-equal-iff-projected-values-equal")
			if vals[i] == vals[j] {
				first = false
			}
		}
		if first && i > 0 {
			distinct++
		}
	}
	if distinct >= 3 {
		vndReach("h08:bucket-shared") // three or more distinct rows exist; with the free hash some paths put them in one bucket
	}
}

// H08Split: a projection on the keys a and b; every result splits one of two three-byte
// strings between them at a solver-chosen point ("", "rsx" / "r", "sx" / "rs", "x" / "rsx", ""),
// so that different rows have the same concatenation of values (and, the row hash running
// over the values back to back, really share a bucket, natively too).
func H08Split() {
	n := vndParam("results")
	var pp ProjectionParser
	proj, err := pp.Parse("a,b", nil)
	if err != nil {
		panic(err)
	}
	type row struct{ a, b string }
	rows := make([]row, n)
	keys := make([]Key, n)
	for i := 0; i < n; i++ {
		s := []string{"rsx", "rsy"}[vndChoice("str", vndParam("strings"))]
		k := vndChoice("split", 4)
		rows[i] = row{s[:k], s[k:]}
		res := &benchfmt.Result{Name: benchfmt.Name("B"), Iters: 1, Values: []benchfmt.Value{{Value: 1, Unit: "u"}}}
		if rows[i].a != "" {
			res.SetConfig("a", rows[i].a)
		}
		if rows[i].b != "" {
			res.SetConfig("b", rows[i].b)
		}
		keys[i] = proj.Project(res)
	}
	vndReach("h08:split")
	fs := proj.FlattenedFields()
	for i := 0; i < n; i++ {
		vndAssert(keys[i].Get(fs[0]) == rows[i].a && keys[i].Get(fs[1]) == rows[i].b, "get-returns-the-extracted-value")
		for j := 0; j < i; j++ {
			vndAssert((keys[i] == keys[j]) == (rows[i] == rows[j]), "keys-equal-iff-projected-values-equal")
		}
	}
}

// H08Internal: the .config group is the *file* configuration. Three results carry the key
// "a" as file configuration, as internal configuration (set by a tool, File == false) or not
// at all, in every order of first appearance, plus a file key "b": two results agree on the
// .config key exactly when their file configurations are equal, and the key never returns an
// internal value.
func H08Internal() {
	var pp ProjectionParser
	proj, err := pp.Parse(".config", nil)
	if err != nil {
		panic(err)
	}
	const n = 3
	type row struct{ a, b string } // the file configuration
	rows := make([]row, n)
	keys := make([]Key, n)
	for i := 0; i < n; i++ {
		res := &benchfmt.Result{Name: benchfmt.Name("B"), Iters: 1, Values: []benchfmt.Value{{Value: 1, Unit: "u"}}}
		v := "x"
		kind := vndChoice("a-kind", 3)
		if kind != 0 && vndBool("a-other-value") {
			v = "y"
		}
		switch kind {
		case 0:
		case 1:
			res.Config = append(res.Config, benchfmt.Config{Key: "a", Value: []byte(v), File: true})
			rows[i].a = v
		case 2:
			res.Config = append(res.Config, benchfmt.Config{Key: "a", Value: []byte(v), File: false})
		}
		if vndBool("b") {
			res.Config = append(res.Config, benchfmt.Config{Key: "b", Value: []byte("p"), File: true})
			rows[i].b = "p"
		}
		keys[i] = proj.Project(res)
	}
	vndReach("h08:internal")
	for i := 0; i < n; i++ {
		got := row{}
		for _, f := range proj.FlattenedFields() {
			switch f.Name {
			case "a":
				got.a = keys[i].Get(f)
			case "b":
				got.b = keys[i].Get(f)
			default:
				vndAssert(false, "config-group-has-only-file-keys")
			}
		}
		vndAssert(got == rows[i], "config-group-returns-the-file-configuration")
		for j := 0; j < i; j++ {
			vndAssert((keys[i] == keys[j]) == (rows[i] == rows[j]), "config-keys-equal-iff-file-configurations-equal")
		}
	}
}

// H08Dash: a name that ends in a dash without digits has no GOMAXPROCS suffix: the dash
// belongs to the base name or to the last sub-name value. Concrete family of name pairs that
// differ only in that dash, projected by .name, /k and /gomaxprocs (parsed in either order)
// plus the residue: the two results never agree on all keys, and each key returns the value
// with its dash.
func H08Dash() {
	pairs := [][2]string{{"Neg-", "Neg"}, {"Dash/k=-", "Dash/k="}, {"D/k=v-", "D/k=v"}, {"E-/k=v", "E/k=v"}, {"F--4", "F-4"}, {"G/k=v--8", "G/k=v-8"}}
	pr := pairs[vndChoice("pair", len(pairs))]
	exprs := []string{".name", "/k", "/gomaxprocs"}
	perm := h08Perm(3, vndChoice("parse-order", 6))
	var pp ProjectionParser
	projs := make([]*Projection, 3)
	for _, pi := range perm {
		p, err := pp.Parse(exprs[pi], nil)
		if err != nil {
			panic(err)
		}
		projs[pi] = p
	}
	residue := pp.Residue()
	mk := func(name string) *benchfmt.Result {
		return &benchfmt.Result{Name: benchfmt.Name(name), Iters: 1, Values: []benchfmt.Value{{Value: 1, Unit: "u"}}}
	}
	r0, r1 := mk(pr[0]), mk(pr[1])
	vndReach("h08:dash")
	agree := residue.Project(r0) == residue.Project(r1)
	for _, p := range projs {
		agree = agree && p.Project(r0) == p.Project(r1)
	}
	vndAssert(!agree, "projections-plus-residue-lose-nothing")
	// reference decomposition of the first name of the pair
	name := pr[0]
	gmp := ""
	if i := strings.LastIndexByte(name, '-'); i >= 0 && i+1 < len(name) {
		digits := true
		for _, c := range []byte(name[i+1:]) {
			digits = digits && c >= '0' && c <= '9'
		}
		if digits {
			gmp, name = name[i+1:], name[:i]
		}
	}
	base, kval := name, ""
	if i := strings.IndexByte(name, '/'); i >= 0 {
		base, kval = name[:i], name[i+len("/k="):]
	}
	get := func(p *Projection, r *benchfmt.Result) string {
		k := p.Project(r)
		return k.Get(p.FlattenedFields()[0])
	}
	vndAssert(get(projs[0], r0) == base, "name-key-is-the-base-with-its-dash")
	vndAssert(get(projs[1], r0) == kval, "sub-name-value-keeps-its-dash")
	vndAssert(get(projs[2], r0) == gmp, "gomaxprocs-needs-digits-after-the-dash")
}

// H08Rejected: an expression the parser rejects leaves no trace: after the rejection the
// same parser's projections plus residue still lose nothing (two results that differ only
// in a file key nobody named get different residue keys), in either order of rejection and
// accepted expression.
func H08Rejected() {
	// (single-field expressions: what a rejected multi-field expression leaves behind of its
	// accepted leading fields is not something the property speaks about)
	bad := []string{".config@(x y)", "a@nosuchorder", ".unit"}[vndChoice("rejected", 3)]
	var pp ProjectionParser
	rejectFirst := vndBool("reject-first")
	if rejectFirst {
		_, err := pp.Parse(bad, nil)
		vndAssert(err != nil, "expression-is-rejected")
	}
	p, err := pp.Parse(".fullname", nil)
	if err != nil {
		panic(err)
	}
	if !rejectFirst {
		_, err := pp.Parse(bad, nil)
		vndAssert(err != nil, "expression-is-rejected")
	}
	residue := pp.Residue()
	va, vb := vndByte("a"), vndByte("b")
	vndAssume(vndAnd(vndAnd(va >= 'x', va <= 'y'), vndAnd(vb >= 'x', vb <= 'y')))
	r0 := h08BuildName(h08Name{nm: 'N', a: 'x', b: 'x'})
	r1 := h08BuildName(h08Name{nm: 'N', a: va, b: vb})
	vndReach("h08:rejected")
	agree := p.Project(r0) == p.Project(r1) && residue.Project(r0) == residue.Project(r1)
	vndAssert(agree == vndAnd(va == 'x', vb == 'x'), "projections-plus-residue-lose-nothing")
}

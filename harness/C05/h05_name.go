package benchfmt

// C05, part 1: Name.Base / Name.Parts decomposition on an arbitrary byte
// string, against a reference splitter written from the documentation.

func h05isDigit(c byte) bool { return '0' <= c && c <= '9' }

// h05RefSplit splits name into base, '/'-introduced segments and an optional
// trailing "-N" part (returned as start offset, or -1).
func h05RefSplit(name []byte) (baseEnd int, segStarts []int, gmp int) {
	n := len(name)
	j := n
	for j > 0 && h05isDigit(name[j-1]) {
		j--
	}
	gmp = -1
	rest := n
	if j < n && j > 0 && name[j-1] == '-' {
		gmp = j - 1
		rest = j - 1
	}
	baseEnd = rest
	for i := 0; i < rest; i++ {
		if name[i] == '/' {
			if len(segStarts) == 0 {
				baseEnd = i
			}
			segStarts = append(segStarts, i)
		}
	}
	return
}

func H05Name() {
	n := vndParam("len")
	raw := vndBytes("name", n)
	name := Name(append([]byte(nil), raw...))

	base := name.Base()
	pbase, parts := name.Parts()

	baseEnd, segStarts, gmp := h05RefSplit(raw)
	vndReach("h05name:split")
	if gmp >= 0 {
		vndReach("h05name:gomaxprocs")
	}
	if len(segStarts) > 1 {
		vndReach("h05name:two-segments")
	}

	// Base reported on its own is the same base.
	vndAssert(string(base) == string(pbase), "base-consistent")
	vndAssert(string(pbase) == string(raw[:baseEnd]), "base-is-prefix-before-first-part")

	// Number and content of parts.
	want := len(segStarts)
	if gmp >= 0 {
		want++
	}
	vndAssert(len(parts) == want, "part-count")
	if len(parts) != want {
		return
	}
	rest := len(raw)
	if gmp >= 0 {
		rest = gmp
	}
	for k, s := range segStarts {
		end := rest
		if k+1 < len(segStarts) {
			end = segStarts[k+1]
		}
		vndAssert(string(parts[k]) == string(raw[s:end]), "segment-content")
		vndAssert(len(parts[k]) > 0 && parts[k][0] == '/', "segment-starts-with-slash")
	}
	if gmp >= 0 {
		last := parts[len(parts)-1]
		vndAssert(string(last) == string(raw[gmp:]), "gomaxprocs-content")
	}

	// Concatenation reproduces the full name byte for byte.
	var cat []byte
	cat = append(cat, pbase...)
	for _, p := range parts {
		cat = append(cat, p...)
	}
	vndAssert(string(cat) == string(raw), "concat-reproduces-name")
	vndAssert(string(name.Full()) == string(raw), "full-is-name")
	vndObserveBytes("base", base)
	vndObserveInt("nparts", len(parts))
	vndObserveBytes("cat", cat)
}

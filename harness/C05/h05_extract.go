package benchproc

// C05, part 2: keys usable in projections and filters agree with the name
// decomposition. The name is an arbitrary byte string; expectations come from
// a reference splitter written from the documentation.

import (
	"golang.org/x/perf/benchfmt"
)

func h05isDigit(c byte) bool { return '0' <= c && c <= '9' }

// h05Ref computes base end, the start offsets of '/'-segments, and the start
// of a trailing "-N" part (or -1) for name.
func h05Ref(name []byte) (baseEnd int, segs [][2]int, gmp int) {
	n := len(name)
	j := n
	for j > 0 && h05isDigit(name[j-1]) {
		j--
	}
	gmp = -1
	rest := n
	if j < n && j > 0 && name[j-1] == '-' {
		gmp = j - 1
		rest = j - 1
	}
	baseEnd = rest
	start := -1
	for i := 0; i < rest; i++ {
		if name[i] == '/' {
			if start < 0 {
				baseEnd = i
			} else {
				segs = append(segs, [2]int{start, i})
			}
			start = i
		}
	}
	if start >= 0 {
		segs = append(segs, [2]int{start, rest})
	}
	return
}

var h05Templates = []string{"", "B/gomaxprocs=", "B/k=a/k=", "B/kk=1/", "B-", "B/gomaxprocs=2-", "B/k=/k=", "B/gomaxprocs=/gomaxprocs="}

func h05Raw() []byte {
	n := vndParam("len")
	t := h05Templates[vndParam("tmpl")]
	return append([]byte(t), vndBytes("name", n)...)
}

func h05HasPrefix(b []byte, p string) bool {
	return len(b) >= len(p) && string(b[:len(p)]) == p
}

func h05Project(expr string, res *benchfmt.Result) string {
	var pp ProjectionParser
	proj, err := pp.Parse(expr, nil)
	if err != nil {
		panic("parse " + expr + ": " + err.Error())
	}
	key := proj.Project(res)
	fs := proj.Fields()
	if len(fs) != 1 {
		panic("expected one field")
	}
	return key.Get(fs[0])
}

// H05Extract: single-field projections on a result with an arbitrary name
// and one configuration entry.
func H05Extract() {
	raw := h05Raw()
	cfgVal := vndByte("cfgval")
	vndAssume(cfgVal != 0)
	res := &benchfmt.Result{Name: benchfmt.Name(append([]byte(nil), raw...)), Iters: 1}
	res.SetConfig("k", string([]byte{cfgVal}))
	res.Values = []benchfmt.Value{{Value: 1, Unit: "ns/op"}}

	baseEnd, segs, gmp := h05Ref(raw)
	vndReach("h05x:ref")

	vndAssert(h05Project(".name", res) == string(raw[:baseEnd]), "dot-name-is-base")
	vndAssert(h05Project(".fullname", res) == string(raw), "dot-fullname-is-name")

	// /k: text after "/k=" in the first segment with that key; "" if absent.
	wantK := ""
	foundK := false
	for _, s := range segs {
		if h05HasPrefix(raw[s[0]:s[1]], "/k=") {
			wantK = string(raw[s[0]+3 : s[1]])
			foundK = true
			break
		}
	}
	if foundK {
		vndReach("h05x:subkey-found")
	}
	vndAssert(h05Project("/k", res) == wantK, "subname-key")

	// /gomaxprocs: trailing N, else explicit segment, else "".
	wantG := ""
	if gmp >= 0 {
		wantG = string(raw[gmp+1:])
		vndReach("h05x:gomaxprocs-suffix")
	} else {
		for _, s := range segs {
			if h05HasPrefix(raw[s[0]:s[1]], "/gomaxprocs=") {
				wantG = string(raw[s[0]+12 : s[1]])
				break
			}
		}
	}
	vndAssert(h05Project("/gomaxprocs", res) == wantG, "gomaxprocs-key")

	// plain keys: configured value, absent -> "".
	vndAssert(h05Project("k", res) == string([]byte{cfgVal}), "config-key")
	vndAssert(h05Project("absent", res) == "", "absent-config-key")
	vndObserveStr("name", h05Project(".name", res))
	vndObserveStr("subk", h05Project("/k", res))
	vndObserveStr("gmp", h05Project("/gomaxprocs", res))
}

// H05Filter: literal filter terms see the same extracted values.
func H05Filter() {
	raw := h05Raw()
	res := &benchfmt.Result{Name: benchfmt.Name(append([]byte(nil), raw...)), Iters: 1}
	res.Values = []benchfmt.Value{{Value: 1, Unit: "ns/op"}}
	baseEnd, segs, gmp := h05Ref(raw)

	match := func(q string) bool {
		f, err := NewFilter(q)
		if err != nil {
			panic("filter " + q + ": " + err.Error())
		}
		m, err := f.Match(res)
		if err != nil {
			panic(err)
		}
		return m.All()
	}
	vndReach("h05f:ref")
	vndAssert(match(".name:B") == (string(raw[:baseEnd]) == "B"), "filter-name")
	wantK := ""
	for _, s := range segs {
		if h05HasPrefix(raw[s[0]:s[1]], "/k=") {
			wantK = string(raw[s[0]+3 : s[1]])
			break
		}
	}
	vndAssert(match("/k:v") == (wantK == "v"), "filter-subkey")
	vndAssert(match(`/k:""`) == (wantK == ""), "filter-subkey-absent-is-empty")
	wantG := ""
	if gmp >= 0 {
		wantG = string(raw[gmp+1:])
	}
	if gmp < 0 {
		for _, s := range segs {
			if h05HasPrefix(raw[s[0]:s[1]], "/gomaxprocs=") {
				wantG = string(raw[s[0]+12 : s[1]])
				break
			}
		}
	}
	vndAssert(match("/gomaxprocs:4") == (wantG == "4"), "filter-gomaxprocs")
}

// H05History: one projection is applied to a Result whose Name buffer is
// overwritten in place (as a Reader does); the second extraction must follow
// the second name.
func H05History() {
	n := vndParam("len")
	t := h05Templates[vndParam("tmpl")]
	n1 := append([]byte(t), vndBytes("name1", n)...)
	n2 := append([]byte(t), vndBytes("name2", n)...)
	var pp ProjectionParser
	proj, err := pp.Parse("/k,/gomaxprocs,.name", nil)
	if err != nil {
		panic(err)
	}
	f, err := NewFilter("/k:v")
	if err != nil {
		panic(err)
	}
	res := &benchfmt.Result{Name: benchfmt.Name(append([]byte(nil), n1...)), Iters: 1}
	res.Values = []benchfmt.Value{{Value: 1, Unit: "ns/op"}}
	fs := proj.Fields()
	check := func(raw []byte, label string) {
		baseEnd, segs, gmp := h05Ref(raw)
		wantK := ""
		for _, s := range segs {
			if h05HasPrefix(raw[s[0]:s[1]], "/k=") {
				wantK = string(raw[s[0]+3 : s[1]])
				break
			}
		}
		wantG := ""
		if gmp >= 0 {
			wantG = string(raw[gmp+1:])
		} else {
			for _, s := range segs {
				if h05HasPrefix(raw[s[0]:s[1]], "/gomaxprocs=") {
					wantG = string(raw[s[0]+12 : s[1]])
					break
				}
			}
		}
		key := proj.Project(res)
		vndAssert(key.Get(fs[0]) == wantK, label+"-subname-key")
		vndAssert(key.Get(fs[1]) == wantG, label+"-gomaxprocs-key")
		vndAssert(key.Get(fs[2]) == string(raw[:baseEnd]), label+"-name-key")
		m, _ := f.Match(res)
		vndAssert(m.All() == (wantK == "v"), label+"-filter-subkey")
	}
	check(n1, "first")
	copy(res.Name, n2) // same length: the buffer is reused in place
	vndReach("h05h:second")
	check(n2, "second-after-in-place-rename")
}

package benchseries

// C18: comparison series depend only on the result set; bootstrap summaries
// are sane.

import (
	"fmt"
	"math"
	"sort"
	"strings"

	"golang.org/x/perf/benchfmt"
)

// ---------------------------------------------------------------- percentile kernel

var h18Conf = []float64{0.9, 0.95, 0.99}

func h18Bounded(v float64) bool {
	return vndAnd(v == v, vndAnd(v <= 1e300, v >= -1e300))
}

// H18Percentile: on sorted ratios, the percentiles used for the interval
// bracket the median and stay within the smallest and largest ratio.
func H18Percentile() {
	n := vndParam("n")
	conf := h18Conf[vndParam("conf")]
	a := make([]float64, n)
	for i := range a {
		a[i] = vndFloat64("ratio")
		vndAssume(h18Bounded(a[i]))
		if i > 0 {
			vndAssume(a[i-1] <= a[i])
		}
	}
	p := (1 - conf) / 2
	low, high, centre := percentile(a, p), percentile(a, 1-p), median(a)
	vndReach("h18:percentile")
	// Exact statements (the interpolation a*(1-x)+b*x is known to leave [a,b]
	// by a rounding error, see known_findings.json) ...
	vndAssert(vndAnd(a[0] <= low, low <= a[n-1]), "low-within-smallest-and-largest-ratio")
	vndAssert(vndAnd(a[0] <= high, high <= a[n-1]), "high-within-smallest-and-largest-ratio")
	vndAssert(vndAnd(a[0] <= centre, centre <= a[n-1]), "centre-within-smallest-and-largest-ratio")
	vndAssert(low <= centre, "low-at-most-centre")
	vndAssert(centre <= high, "centre-at-most-high")
	// ... and the same up to a rounding error, which must hold regardless.
	tol := func(v float64) float64 { return math.Abs(v)*0x1p-50 + 0x1p-1070 }
	vndAssert(vndAnd(low >= a[0]-tol(a[0]), high <= a[n-1]+tol(a[n-1])), "interval-within-ratio-range-up-to-rounding")
	vndAssert(vndAnd(low <= centre+tol(centre), centre <= high+tol(high)), "interval-ordered-up-to-rounding")
}

// ---------------------------------------------------------------- order independence

// stamps in both accepted formats; [1] and [2] denote the same instant
var h18Stamps = []string{"20200101T000000", "2020-01-02T00:00:00+00:00", "2020-01-01T19:00:00-05:00", "2020-01-02T00:00:00.000+00:00"}
var h18Instant = []int{0, 1, 1, 1}
var h18Vals = []float64{3, 5, 7, 11, 13, 17, 19, 23}

type h18Res struct {
	exp, ser int  // indices into h18Stamps
	role     byte // 'T' numerator, 'B' denominator
	name     byte
	nh       byte // numerator hash override (0: a function of the series instant, as in real data)
}

func (r h18Res) build(i int) *benchfmt.Result {
	res := &benchfmt.Result{Name: benchfmt.Name([]byte{r.name}), Iters: 1}
	add := func(k, v string) {
		res.Config = append(res.Config, benchfmt.Config{Key: k, Value: []byte(v), File: true})
	}
	add("exp", h18Stamps[r.exp])
	add("ser", h18Stamps[r.ser])
	add("role", string([]byte{r.role}))
	// hashes are functions of the series / experiment, as in real data
	if r.nh != 0 {
		add("nh", "n"+string([]byte{r.nh}))
	} else {
		add("nh", "n"+string([]byte{'0' + byte(h18Instant[r.ser])}))
	}
	add("dh", "d"+string([]byte{'0' + byte(r.exp)}))
	res.Values = []benchfmt.Value{{Value: h18Val(i), Unit: "u"}}
	return res
}

var h18Descending bool

// h18Val is the measurement of result i; descending order makes later
// results smaller than earlier ones (so that sorting a combined sample moves
// earlier elements).
func h18Val(i int) float64 {
	if h18Descending {
		return h18Vals[len(h18Vals)-1-i]
	}
	return h18Vals[i]
}

func h18Options() *BuilderOptions {
	return &BuilderOptions{Filter: "*", Series: "ser", Table: "", Experiment: "exp", Compare: "role",
		Numerator: "T", Denominator: "B", NumeratorHash: "nh", DenominatorHash: "dh", Ignore: "",
		Warn: func(format string, args ...interface{}) {}}
}

// h18Render flattens what a user can observe of the comparison series.
func h18Render(css []*ComparisonSeries) string {
	var sb strings.Builder
	for _, cs := range css {
		sb.WriteString("unit " + cs.Unit + "\n")
		sb.WriteString("benchmarks " + strings.Join(cs.Benchmarks, ",") + "\n")
		sb.WriteString("series " + strings.Join(cs.Series, ",") + "\n")
		var hk []string
		for k := range cs.HashPairs {
			hk = append(hk, k)
		}
		sort.Strings(hk)
		for _, k := range hk {
			sb.WriteString("hash " + k + " " + cs.HashPairs[k].NumHash + "/" + cs.HashPairs[k].DenHash + "\n")
		}
		for _, b := range cs.Benchmarks {
			for _, s := range cs.Series {
				if c, ok := cs.ComparisonAt(b, s); ok && c.Numerator != nil && c.Denominator != nil {
					sb.WriteString(fmt.Sprintf("point %s %s date=%s num=%v den=%v\n", b, s, c.Date, c.Numerator.Values, c.Denominator.Values))
				} else if ok {
					sb.WriteString(fmt.Sprintf("point %s %s incomplete\n", b, s))
				}
			}
		}
	}
	return sb.String()
}

func h18Run(rs []h18Res, order []int, dupe int) string {
	b, err := NewBuilder(h18Options())
	if err != nil {
		panic(err)
	}
	for _, i := range order {
		b.Add(rs[i].build(i))
	}
	css, err := b.AllComparisonSeries(nil, dupe)
	if err != nil {
		return "ERROR " + err.Error()
	}
	return h18Render(css)
}

// H18Order: the comparison series are the same whatever the order in which
// results were added and whatever the runtime's map iteration order.
func H18Order() {
	n := vndParam("results")
	dupe := vndParam("dupe")
	rs := make([]h18Res, n)
	order := make([]int, n)
	for i := range rs {
		rs[i].exp = vndChoice("exp", 2)
		rs[i].ser = 1 + vndChoice("ser", 3) // three spellings of one instant
		rs[i].role = []byte{'T', 'B'}[vndChoice("role", 2)]
		rs[i].name = 'P'
		order[i] = i
	}
	ref := h18Run(rs, order, dupe)
	perm := append([]int(nil), order...)
	for i := n - 1; i > 0; i-- {
		j := vndChoice("perm", i+1)
		perm[i], perm[j] = perm[j], perm[i]
	}
	vndMapOrderNondet(true)
	got := h18Run(rs, perm, dupe)
	vndMapOrderNondet(false)
	vndReach("h18:order")
	if vndNative() {
		for k := 0; k < 32 && got == ref; k++ {
			got = h18Run(rs, perm, dupe)
		}
	}
	vndAssert(got == ref, "series-independent-of-add-order-and-map-order")
	if strings.Contains(ref, "point") {
		vndReach("h18:point")
	}
	vndObserveStr("series", ref)
}

// H18Membership: a point's samples are exactly the measurements whose
// benchmark, series (through the numerator hash), experiment and role match;
// with replacement the latest experiment wins, with combination samples are
// concatenated.
func H18Membership() {
	n := vndParam("results")
	dupe := vndParam("dupe")
	rs := make([]h18Res, n)
	order := make([]int, n)
	for i := range rs {
		rs[i].exp = vndChoice("exp", 2)
		rs[i].ser = vndChoice("ser", 3)
		rs[i].role = []byte{'T', 'B'}[vndChoice("role", 2)]
		rs[i].name = 'P'
		order[i] = i
	}
	b, _ := NewBuilder(h18Options())
	for _, i := range order {
		b.Add(rs[i].build(i))
	}
	css, err := b.AllComparisonSeries(nil, dupe)
	vndAssert(err == nil && len(css) == 1, "one-unit-one-series-table")
	if err != nil || len(css) != 1 {
		return
	}
	cs := css[0]
	vndReach("h18:membership")
	norm := []string{"2020-01-01T00:00:00+00:00", "2020-01-02T00:00:00+00:00"}
	for ser := 0; ser < 2; ser++ {
		// experiments that measured a numerator for this series
		var exps []int
		hasBase := [2]bool{}
		for e := 0; e < 2; e++ {
			hasN := false
			for _, r := range rs {
				if r.exp == e && r.role == 'T' && h18Instant[r.ser] == ser {
					hasN = true
				}
				if r.exp == e && r.role == 'B' {
					hasBase[e] = true
				}
			}
			if hasN {
				exps = append(exps, e)
			}
		}
		c, ok := cs.ComparisonAt("P", norm[ser])
		if len(exps) == 0 {
			vndAssert(!ok, "no-point-without-a-numerator-measurement")
			continue
		}
		vndAssert(ok && c.Numerator != nil, "point-exists-when-a-numerator-was-measured")
		if !ok || c.Numerator == nil {
			continue
		}
		use := exps
		if dupe == DUPE_REPLACE {
			use = exps[len(exps)-1:] // latest experiment wins
		}
		anyBase := false
		for _, e := range use {
			anyBase = anyBase || hasBase[e]
		}
		vndAssert((c.Denominator != nil) == anyBase, "denominator-present-exactly-when-a-used-experiment-has-a-baseline")
		if c.Denominator == nil {
			continue
		}
		vndReach("h18:complete-point")
		var wantN, wantD []float64
		for _, e := range use {
			for i, r := range rs {
				if r.exp == e && r.role == 'T' && h18Instant[r.ser] == ser {
					wantN = append(wantN, h18Val(i))
				}
				if r.exp == e && r.role == 'B' {
					wantD = append(wantD, h18Val(i))
				}
			}
		}
		sort.Float64s(wantN)
		sort.Float64s(wantD)
		vndAssert(fmt.Sprint(c.Numerator.Values) == fmt.Sprint(wantN), "numerator-sample-is-exactly-the-matching-measurements")
		vndAssert(fmt.Sprint(c.Denominator.Values) == fmt.Sprint(wantD), "denominator-sample-is-exactly-the-matching-measurements")
		vndAssert(c.Date == norm[use[len(use)-1]], "point-dated-by-the-latest-experiment")
	}
}

// H18Twice: building the series twice from one Builder gives the same
// result, and cells of the Builder are not disturbed by combining (samples
// with spare slice capacity are the interesting case: three baseline
// measurements in the first experiment).
func H18Twice() {
	h18Descending = true
	defer func() { h18Descending = false }()
	dupe := vndParam("dupe")
	// The experiment with three baseline measurements is the one that is
	// visited first (trials are visited in the order of their raw stamps).
	heavy := vndParam("heavy")
	rs := []h18Res{
		{exp: heavy, ser: 0, role: 'B', name: 'P'},
		{exp: heavy, ser: 0, role: 'B', name: 'P'},
		{exp: heavy, ser: 0, role: 'B', name: 'P'},
		{exp: heavy, ser: 1, role: 'T', name: 'P'},
		{exp: heavy, ser: 0, role: 'T', name: 'P'},
	}
	// two more results with symbolic placement
	for k := 0; k < 2; k++ {
		rs = append(rs, h18Res{exp: vndChoice("exp", 2), ser: vndChoice("ser", 2), role: []byte{'T', 'B'}[vndChoice("role", 2)], name: 'P'})
	}
	b, _ := NewBuilder(h18Options())
	for i := range rs {
		b.Add(rs[i].build(i))
	}
	css1, err1 := b.AllComparisonSeries(nil, dupe)
	first := h18Render(css1)
	css2, err2 := b.AllComparisonSeries(nil, dupe)
	vndReach("h18:twice")
	vndAssert(err1 == nil && err2 == nil, "no-error")
	vndAssert(h18Render(css2) == first, "building-the-series-twice-gives-the-same-result")
	// membership of every complete point (both policies), by the same rule as H18Membership
	norm := []string{"2020-01-01T00:00:00+00:00", "2020-01-02T00:00:00+00:00"}
	if len(css2) != 1 {
		return
	}
	for ser := 0; ser < 2; ser++ {
		c, ok := css2[0].ComparisonAt("P", norm[ser])
		if !ok || c.Numerator == nil || c.Denominator == nil {
			continue
		}
		var exps []int
		for e := 0; e < 2; e++ {
			for _, r := range rs {
				if r.exp == e && r.role == 'T' && h18Instant[r.ser] == ser {
					exps = append(exps, e)
					break
				}
			}
		}
		use := exps
		if dupe == DUPE_REPLACE && len(exps) > 0 {
			use = exps[len(exps)-1:]
		}
		var wantN, wantD []float64
		for _, e := range use {
			for i, r := range rs {
				if r.exp == e && r.role == 'T' && h18Instant[r.ser] == ser {
					wantN = append(wantN, h18Val(i))
				}
				if r.exp == e && r.role == 'B' {
					wantD = append(wantD, h18Val(i))
				}
			}
		}
		sort.Float64s(wantN)
		sort.Float64s(wantD)
		vndAssert(fmt.Sprint(c.Numerator.Values) == fmt.Sprint(wantN), "numerator-sample-is-exactly-the-matching-measurements")
		vndAssert(fmt.Sprint(c.Denominator.Values) == fmt.Sprint(wantD), "denominator-sample-is-exactly-the-matching-measurements")
	}
}

// H18Bootstrap: bootstrap summaries on small samples whose values are solver-chosen from a
// short list: two benchmarks at one series point, each with numerator and denominator
// samples of two measurements. The real AddSummaries runs (real math/rand, seeded from the
// samples as the code does). Every summary lies between the smallest and largest attainable
// ratio (up to the rounding of the percentile interpolation, see the open finding), with
// low <= centre <= high up to the same rounding; summaries computed again from the same
// results are bit-identical; a benchmark's summary does not depend on the other benchmark.
func H18Bootstrap() {
	conf := []float64{0.9, 0.95}[vndParam("conf")]
	N := vndParam("resamples")
	// scale: measurements of ordinary size, very small ones (a custom metric) and very large ones
	scale := []float64{1, 1e-14, 1e14}[vndParam("scale")]
	opts := []float64{16 * scale, 32 * scale}
	var vals [2][2][2]float64 // benchmark, role (0 numerator), index
	for b := 0; b < 2; b++ {
		for r := 0; r < 2; r++ {
			for k := 0; k < 2; k++ {
				vals[b][r][k] = opts[vndChoice("v", len(opts))]
			}
		}
	}
	build := func(only int) []*ComparisonSeries {
		bd, err := NewBuilder(h18Options())
		if err != nil {
			panic(err)
		}
		for b := 0; b < 2; b++ {
			if only >= 0 && b != only {
				continue
			}
			for r := 0; r < 2; r++ {
				for k := 0; k < 2; k++ {
					res := &benchfmt.Result{Name: benchfmt.Name([]byte{'P' + byte(b)}), Iters: 1}
					add := func(k, v string) {
						res.Config = append(res.Config, benchfmt.Config{Key: k, Value: []byte(v), File: true})
					}
					add("exp", h18Stamps[0])
					add("ser", h18Stamps[0])
					add("role", string([]byte{"TB"[r]}))
					add("nh", "n0")
					add("dh", "d0")
					res.Values = []benchfmt.Value{{Value: vals[b][r][k], Unit: "u"}}
					bd.Add(res)
				}
			}
		}
		css, err := bd.AllComparisonSeries(nil, DUPE_REPLACE)
		if err != nil || len(css) != 1 {
			panic("h18: series")
		}
		css[0].AddSummaries(conf, N)
		return css
	}
	css := build(-1)
	again := build(-1)
	vndReach("h18:bootstrap")
	ser := css[0].Series[0]
	for b := 0; b < 2; b++ {
		name := string([]byte{'P' + byte(b)})
		s, ok := css[0].SummaryAt(name, ser)
		vndAssert(ok && s != nil && s.Present, "summary-present-when-both-samples-exist")
		if !ok || s == nil || !s.Present {
			continue
		}
		nu, de := vals[b][0], vals[b][1]
		lo := math.Min(nu[0], nu[1]) / math.Max(de[0], de[1])
		hi := math.Max(nu[0], nu[1]) / math.Min(de[0], de[1])
		eps := 1e-12
		vndAssert(s.Low >= lo*(1-eps) && s.High <= hi*(1+eps) && s.Center >= lo*(1-eps) && s.Center <= hi*(1+eps), "summary-within-the-attainable-ratios-up-to-rounding")
		vndAssert(s.Low <= s.Center*(1+eps) && s.Center <= s.High*(1+eps), "low-centre-high-ordered-up-to-rounding")
		s2, ok2 := again[0].SummaryAt(name, ser)
		vndAssert(ok2 && s2 != nil && s2.Center == s.Center && s2.Low == s.Low && s2.High == s.High, "summaries-reproducible-for-given-samples")
		alone := build(b)
		s3, ok3 := alone[0].SummaryAt(name, ser)
		vndAssert(ok3 && s3 != nil && s3.Center == s.Center && s3.Low == s.Low && s3.High == s.High, "summary-depends-only-on-its-own-samples")
		vndObserveF64("centre", s.Center)
	}
}

// H18Dates: date normalisation maps every accepted spelling of an instant to one string, is
// idempotent, and normalised strings sort chronologically. Concrete family of spellings
// (compact form, offsets of both signs, fractions with and without trailing zeros, with the
// +00:00 offset the normalised form itself uses); the solver picks the pair.
var h18Spellings = [][]string{
	{"20211229T213212", "2021-12-29T21:32:12+00:00", "2021-12-29T16:32:12-05:00", "2021-12-29T21:32:12.000+00:00", "2021-12-29T21:32:12.000000+00:00", "2021-12-30T02:32:12+05:00", "2021-12-29T21:32:12.0-00:00"},
	{"2021-12-29T21:32:12.5+00:00", "2021-12-29T21:32:12.500000+00:00", "2021-12-29T16:32:12.50-05:00", "2021-12-29T21:32:12.500+00:00"},
	{"20211230T000000", "2021-12-30T00:00:00+00:00", "2021-12-29T19:00:00.00-05:00", "2021-12-30T00:00:00.000000000+00:00"},
}

func H18Dates() {
	i1, i2 := vndChoice("instant", 3), vndChoice("other-instant", 3)
	s1 := h18Spellings[i1][vndChoice("spelling", 7)%len(h18Spellings[i1])]
	s2 := h18Spellings[i2][vndChoice("other-spelling", 7)%len(h18Spellings[i2])]
	n1, e1 := NormalizeDateString(s1)
	n2, e2 := NormalizeDateString(s2)
	vndReach("h18:dates")
	vndAssert(e1 == nil && e2 == nil, "accepted-formats-are-accepted")
	if e1 != nil || e2 != nil {
		return
	}
	vndAssert((n1 == n2) == (i1 == i2), "same-instant-same-string")
	vndAssert((n1 < n2) == (i1 < i2), "normalised-strings-sort-chronologically")
	nn, e := NormalizeDateString(n1)
	vndAssert(e == nil && nn == n1, "normalisation-is-idempotent")
}

// H18AddBetween: a Builder that has already produced its series keeps accepting results;
// the series built afterwards are those of a fresh Builder given all results up front
// (later measurements are smaller than earlier ones, so a sample that is not re-sorted, or a
// cell that is not revisited, shows).
func H18AddBetween() {
	h18Descending = true
	defer func() { h18Descending = false }()
	dupe := vndParam("dupe")
	rs := []h18Res{
		{exp: 0, ser: 0, role: 'B', name: 'P'},
		{exp: 0, ser: 0, role: 'T', name: 'P'},
		{exp: 0, ser: 1, role: 'T', name: 'P'},
		// added after the first build: into existing cells, and one with symbolic placement
		{exp: 0, ser: 0, role: 'B', name: 'P'},
		{exp: 0, ser: 0, role: 'T', name: 'P'},
		{exp: vndChoice("exp", 2), ser: vndChoice("ser", 2), role: []byte{'T', 'B'}[vndChoice("role", 2)], name: 'P'},
	}
	cut := 3
	b, _ := NewBuilder(h18Options())
	for i := 0; i < cut; i++ {
		b.Add(rs[i].build(i))
	}
	_, err0 := b.AllComparisonSeries(nil, dupe)
	for i := cut; i < len(rs); i++ {
		b.Add(rs[i].build(i))
	}
	css, err1 := b.AllComparisonSeries(nil, dupe)
	order := make([]int, len(rs))
	for i := range order {
		order[i] = i
	}
	vndReach("h18:add-between")
	vndAssert(err0 == nil && err1 == nil, "no-error")
	vndAssert(h18Render(css) == h18Run(rs, order, dupe), "series-after-more-results-equal-those-of-a-fresh-builder")
}

// H18SameStamp: two commits with the same commit time (two numerator hashes, one series
// stamp) measured in one experiment, plus baselines that mention either hash: whichever
// order the results are added in, the same hash pair, samples and points result.
func H18SameStamp() {
	dupe := vndParam("dupe")
	rs := []h18Res{
		{exp: 0, ser: 1, role: 'T', name: 'P', nh: 'a'},
		{exp: 0, ser: 1, role: 'T', name: 'P', nh: 'b'},
		{exp: 0, ser: 1, role: 'B', name: 'P', nh: []byte{'a', 'b'}[vndChoice("baseline-mentions", 2)]},
		{exp: vndChoice("exp", 2), ser: 1, role: 'T', name: 'P', nh: []byte{'a', 'b'}[vndChoice("hash", 2)]},
	}
	n := len(rs)
	order := make([]int, n)
	for i := range order {
		order[i] = i
	}
	ref := h18Run(rs, order, dupe)
	perm := append([]int(nil), order...)
	for i := n - 1; i > 0; i-- {
		j := vndChoice("perm", i+1)
		perm[i], perm[j] = perm[j], perm[i]
	}
	got := h18Run(rs, perm, dupe)
	vndReach("h18:same-stamp")
	vndAssert(got == ref, "series-independent-of-add-order-and-map-order")
	vndObserveStr("series", ref)
}

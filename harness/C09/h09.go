package benchproc

// C09: keys sort by the documented per-field orders, totally and
// reproducibly.

import (
	"golang.org/x/perf/benchfmt"
)

var h09Projections = []string{
	"a,b",              // 0: first observation, first observation
	"a@alpha,b",        // 1: bytewise, first observation
	".config",          // 2: group; each key inside by first observation
	"b,.config",        // 3: specific key before the group
	".config@alpha",    // 4: group, bytewise inside
	"a@(y x z),b@alpha", // 5: fixed list, bytewise
	".config,b",        // 6: group first (its keys get higher indices than b)
}

type h09Res struct{ a, b byte } // 0 = key absent

func h09Val(c byte) string {
	if c == 0 {
		return ""
	}
	return string([]byte{c})
}

func h09Build(s h09Res) *benchfmt.Result {
	res := &benchfmt.Result{Name: benchfmt.Name("B"), Iters: 1}
	// install file configuration the way the reader does
	if s.a != 0 {
		res.Config = append(res.Config, benchfmt.Config{Key: "a", Value: []byte{s.a}, File: true})
	}
	if s.b != 0 {
		res.Config = append(res.Config, benchfmt.Config{Key: "b", Value: []byte{s.b}, File: true})
	}
	res.Values = []benchfmt.Value{{Value: 1, Unit: "u"}}
	return res
}

func h09Field(s h09Res, name string) string {
	if name == "a" {
		return h09Val(s.a)
	}
	return h09Val(s.b)
}

// h09Rank is the index of the first result whose field `name` has value v
// (len(hist) if never observed), computed without branching.
func h09Rank(hist []h09Res, name string, v string) int {
	r := len(hist)
	for i := len(hist) - 1; i >= 0; i-- {
		r = vndIteInt(h09Field(hist[i], name) == v, i, r)
	}
	return r
}

func h09FixedRank(v string) int {
	// list (y x z)
	return vndIteInt(v == "y", 0, vndIteInt(v == "x", 1, vndIteInt(v == "z", 2, 3)))
}

func H09Order() {
	pi := vndParam("proj")
	n := vndParam("results")
	bpat := vndParam("bpat") // -1: b symbolic; else concrete pattern
	expr := h09Projections[pi]
	filter, _ := NewFilter("*")
	var pp ProjectionParser
	proj, err := pp.Parse(expr, filter)
	if err != nil {
		panic(err)
	}
	var hist []h09Res // results that were projected, in order
	var keys []Key
	for i := 0; i < n; i++ {
		s := h09Res{a: vndByte("a")}
		vndAssume(vndOr(vndOr(s.a == 0, s.a == 'x'), vndOr(s.a == 'y', s.a == 'z')))
		if bpat < 0 {
			s.b = vndByte("b")
			vndAssume(vndOr(vndOr(s.b == 0, s.b == 'x'), vndOr(s.b == 'y', s.b == 'z')))
		} else {
			// concrete b: digit i of the pattern in base 4 selects absent,x,y,z
			d := (bpat >> (2 * uint(i))) & 3
			s.b = []byte{0, 'x', 'y', 'z'}[d]
		}
		res := h09Build(s)
		if ok, _ := filter.Apply(res); !ok {
			continue // removed by the fixed value list
		}
		k := proj.Project(res)
		hist = append(hist, s)
		dup := false
		for _, k2 := range keys {
			if k2 == k {
				dup = true
			}
		}
		if !dup {
			keys = append(keys, k)
		}
	}
	vndReach("h09:projected")
	flat := proj.FlattenedFields()
	// which fields are ordered how
	kind := func(f *Field) int { // 0 first observation, 1 alpha, 2 fixed
		switch pi {
		case 1:
			if f.Name == "a" {
				return 1
			}
		case 4:
			return 1
		case 5:
			if f.Name == "a" {
				return 2
			}
			return 1
		}
		return 0
	}
	refLess := func(k1, k2 Key) bool {
		less, eq := false, true
		for _, f := range flat {
			va, vb := k1.Get(f), k2.Get(f)
			var lt bool
			switch kind(f) {
			case 0:
				lt = h09Rank(hist, f.Name, va) < h09Rank(hist, f.Name, vb)
			case 1:
				lt = va < vb
			default:
				lt = h09FixedRank(va) < h09FixedRank(vb)
			}
			less = vndOr(less, vndAnd(eq, lt))
			eq = vndAnd(eq, va == vb)
		}
		return less
	}
	if len(keys) >= 2 {
		vndReach("h09:two-keys")
	}
	for i, k1 := range keys {
		vndAssert(!k1.Less(k1), "irreflexive")
		for j, k2 := range keys {
			if i == j {
				continue
			}
			l12, l21 := k1.Less(k2), k2.Less(k1)
			vndAssert(l12 == refLess(k1, k2), "order-is-the-documented-per-field-order")
			vndAssert(l12 != l21, "total-and-asymmetric-on-distinct-keys")
			for l, k3 := range keys {
				if l == i || l == j {
					continue
				}
				if l12 && k2.Less(k3) {
					vndAssert(k1.Less(k3), "transitive")
				}
			}
		}
	}
	// sorting: any arrangement gives the same sorted sequence
	if len(keys) >= 2 && len(keys) <= 4 {
		// one of: a rotation or the reversal of the key slice
		arr := append([]Key(nil), keys...)
		rot := vndChoice("arrangement", len(arr)+1)
		if rot == len(arr) {
			for i, j := 0, len(arr)-1; i < j; i, j = i+1, j-1 {
				arr[i], arr[j] = arr[j], arr[i]
			}
		} else {
			arr = append(arr[rot:], arr[:rot]...)
		}
		base := append([]Key(nil), keys...)
		SortKeys(base)
		SortKeys(arr)
		same := len(arr) == len(base)
		for i := range base {
			if arr[i] != base[i] {
				same = false
			}
			if i > 0 {
				vndAssert(!base[i].Less(base[i-1]), "sortkeys-result-is-sorted")
			}
		}
		vndAssert(same, "sortkeys-independent-of-initial-arrangement")
		vndReach("h09:sorted")
	}
	vndObserveInt("nkeys", len(keys))
}

var h09Nums = []string{"1", "1.0", "1e3", "1k", "1Ki", "NaN", "+Inf", "x", "", "0", "-0", "2KiB", "1Zi", "1Y", "0.5M", "-Inf"}

// h09NumVal gives the documented numeric reading of the listed strings.
var h09NumVal = []float64{1, 1, 1000, 1000, 1024, 0, 0, 0, 0, 0, 0, 2048, 1180591620717411303424, 1e24, 500000, 0}
var h09NumKind = []int{0, 0, 0, 0, 0, 1, 2, 3, 3, 0, 0, 0, 0, 0, 0, 4} // 0 number, 1 NaN, 2 +Inf, 3 not a number, 4 -Inf

// h09NumClass orders: numbers (by value, -Inf first, +Inf last) < NaN < non-numbers.
func h09NumLess(i, j int) (less, equal bool) {
	ki, kj := h09NumKind[i], h09NumKind[j]
	rank := func(k int) int {
		switch k {
		case 4:
			return 0
		case 0:
			return 1
		case 2:
			return 2
		case 1:
			return 3
		}
		return 4
	}
	if rank(ki) != rank(kj) {
		return rank(ki) < rank(kj), false
	}
	if ki == 0 {
		return h09NumVal[i] < h09NumVal[j], h09NumVal[i] == h09NumVal[j]
	}
	return false, true
}

// H09Num: the num order on a symbolic choice among concrete strings.
func H09Num() {
	var pp ProjectionParser
	proj, err := pp.Parse("a@num", nil)
	if err != nil {
		panic(err)
	}
	idx := make([]int, 3)
	var ks []Key
	for i := range idx {
		idx[i] = vndChoice("num", len(h09Nums))
		res := &benchfmt.Result{Name: benchfmt.Name("B"), Iters: 1}
		if h09Nums[idx[i]] != "" {
			res.Config = append(res.Config, benchfmt.Config{Key: "a", Value: []byte(h09Nums[idx[i]]), File: true})
		}
		ks = append(ks, proj.Project(res))
	}
	vndReach("h09:num")
	for i := 0; i < 3; i++ {
		for j := 0; j < 3; j++ {
			if ks[i] == ks[j] {
				vndAssert(!ks[i].Less(ks[j]), "num-irreflexive")
				continue
			}
			less, equal := h09NumLess(idx[i], idx[j])
			l12, l21 := ks[i].Less(ks[j]), ks[j].Less(ks[i])
			vndAssert(l12 != l21, "num-total-on-distinct-keys")
			if !equal {
				vndAssert(l12 == less, "num-order-numeric-with-suffixes-numbers-first-nan-last")
			} else {
				// numerically equal: the string fallback decides
				vndAssert(l12 == (h09Nums[idx[i]] < h09Nums[idx[j]]), "num-ties-broken-bytewise")
			}
			for l := 0; l < 3; l++ {
				if l12 && ks[j].Less(ks[l]) {
					vndAssert(ks[i].Less(ks[l]), "num-transitive")
				}
			}
		}
	}
}

// H09NumTwo: a two-field projection whose first field is ordered numerically and whose
// values can tie numerically while differing as strings ("1" and "1.0", "1e3" and "1k").
// The first field in which two keys differ decides: numerically if it can, bytewise
// otherwise; later fields are consulted only when earlier ones are identical. Strict total
// order on distinct keys.
func H09NumTwo() {
	var pp ProjectionParser
	proj, err := pp.Parse("a@num,b@alpha", nil)
	if err != nil {
		panic(err)
	}
	as := []string{"1", "1.0", "1e3", "1k"}
	av := []float64{1, 1, 1000, 1000}
	bs := []string{"x", "y"}
	n := 3
	ai, bi := make([]int, n), make([]int, n)
	var ks []Key
	for i := 0; i < n; i++ {
		ai[i], bi[i] = vndChoice("a", len(as)), vndChoice("b", len(bs))
		res := &benchfmt.Result{Name: benchfmt.Name("B"), Iters: 1}
		res.Config = append(res.Config, benchfmt.Config{Key: "a", Value: []byte(as[ai[i]]), File: true})
		res.Config = append(res.Config, benchfmt.Config{Key: "b", Value: []byte(bs[bi[i]]), File: true})
		ks = append(ks, proj.Project(res))
	}
	vndReach("h09:numtwo")
	want := func(i, j int) bool {
		if ai[i] != ai[j] {
			if av[ai[i]] != av[ai[j]] {
				return av[ai[i]] < av[ai[j]]
			}
			return as[ai[i]] < as[ai[j]]
		}
		return bs[bi[i]] < bs[bi[j]]
	}
	for i := 0; i < n; i++ {
		for j := 0; j < n; j++ {
			if ks[i] == ks[j] {
				vndAssert(!ks[i].Less(ks[j]), "num-irreflexive")
				continue
			}
			l12, l21 := ks[i].Less(ks[j]), ks[j].Less(ks[i])
			vndAssert(l12 != l21, "num-total-on-distinct-keys")
			vndAssert(l12 == want(i, j), "first-differing-field-decides")
			for l := 0; l < n; l++ {
				if l12 && ks[j].Less(ks[l]) {
					vndAssert(ks[i].Less(ks[l]), "num-transitive")
				}
			}
		}
	}
	sorted := append([]Key(nil), ks...)
	SortKeys(sorted)
	for i := 0; i+1 < n; i++ {
		vndAssert(!sorted[i+1].Less(sorted[i]), "sorted-keys-are-sorted")
	}
}

package benchfmt

// C02: several files read in sequence through one reused reader.

func h02FileContent(k int, cfgKey, cfgVal byte) []byte {
	var b []byte
	if cfgKey != 0 {
		b = append(b, cfgKey, ':', ' ', cfgVal, '\n')
	}
	if k == 0 {
		b = append(b, "Unit ns/op better=lower\n"...)
	}
	b = append(b, "BenchmarkF 1 1 ns/op\n"...)
	return b
}

// H02Files: up to three paths with symbolic one-byte names (so duplicates
// arise), optional label=path form, per-file configuration lines.
func H02Files() {
	n := vndParam("files")
	labels := vndParam("labels") == 1
	names := make([]byte, n)
	cfgKeys := make([]byte, n)
	cfgVals := make([]byte, n)
	var paths []string
	for k := 0; k < n; k++ {
		names[k] = vndByte("name")
		vndAssume(vndAnd(names[k] >= 'a', names[k] <= 'b'))
		// file k sets key ('p'+k) = value; the last file sets nothing
		if k < n-1 {
			cfgKeys[k] = 'p' + byte(k)
			cfgVals[k] = vndByte("cfgval")
			vndAssume(vndAnd(cfgVals[k] > ' ', cfgVals[k] < 0x7f))
		}
	}
	// Register contents: a duplicated path has one content (the first writer wins is
	// irrelevant: content is keyed by index through distinct config only when
	// names differ), so give duplicates identical content by construction.
	for k := 0; k < n; k++ {
		first := k
		for j := 0; j < k; j++ {
			if names[j] == names[k] {
				first = j
				break
			}
		}
		if first == k {
			vndFile(string(names[k:k+1]), h02FileContent(k, cfgKeys[k], cfgVals[k]))
		} else {
			cfgKeys[k], cfgVals[k] = cfgKeys[first], cfgVals[first]
		}
		p := string(names[k : k+1])
		if labels && k == 0 {
			p = "L=" + p
		}
		paths = append(paths, p)
	}
	f := &Files{Paths: paths, AllowLabels: labels}
	var results []*Result
	nMeta := 0
	for f.Scan() {
		switch rec := f.Result().(type) {
		case *Result:
			results = append(results, rec.Clone())
		case *UnitMetadata:
			nMeta++
		case *SyntaxError:
			vndAssert(false, "no-syntax-errors")
		}
	}
	vndAssert(f.Err() == nil, "no-error")
	vndAssert(len(results) == n, "one-result-per-file")
	if len(results) != n {
		return
	}
	vndReach("h02:files")
	for k, res := range results {
		// expected .file label
		want := string(names[k : k+1])
		if labels && k == 0 {
			want = "L"
		} else {
			dups, idx := 0, 0
			for j := 0; j < n; j++ {
				if labels && j == 0 {
					continue
				}
				if names[j] == names[k] {
					if j < k {
						idx++
					}
					dups++
				}
			}
			if dups > 1 {
				vndReach("h02:files-duplicate")
				want = want + "#" + string([]byte{'0' + byte(idx)})
			}
		}
		vndAssert(res.GetConfig(".file") == want, "result-carries-its-own-file-label")
		// file configuration of this file only
		nFile := 0
		for _, c := range res.Config {
			if c.File {
				nFile++
				vndAssert(len(c.Key) == 1 && c.Key[0] == cfgKeys[k] && string(c.Value) == string(cfgVals[k:k+1]), "file-configuration-does-not-leak-between-files")
			} else {
				vndAssert(c.Key == ".file", "only-the-file-label-is-internal")
			}
		}
		wantFile := 0
		if cfgKeys[k] != 0 {
			wantFile = 1
		}
		vndAssert(nFile == wantFile, "file-configuration-is-exactly-this-files")
		fn, line := res.Pos()
		wantLine := 1
		if cfgKeys[k] != 0 {
			wantLine++
		}
		// the first distinct file's content also has the Unit line
		firstOfName := true
		for j := 0; j < k; j++ {
			if names[j] == names[k] {
				firstOfName = false
			}
		}
		_ = firstOfName
		unitLine := false
		for j := 0; j <= k; j++ {
			if names[j] == names[k] {
				unitLine = j == 0 // content was registered by the first file with this name
				break
			}
		}
		if unitLine {
			wantLine++
		}
		vndAssert(fn == string(names[k:k+1]), "record-position-names-its-own-file")
		vndAssert(line == wantLine, "line-numbers-restart-with-every-file")
	}
	// unit metadata carries across files
	um := UnitMetadataMap(f.Units())
	vndAssert(um.GetBetter("ns/op") == -1 && um.Get("sec/op", "better") != nil, "unit-metadata-carries-across-files")
	vndAssert(nMeta >= 1, "unit-metadata-reported")
}

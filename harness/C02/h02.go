package benchfmt

// C02: the reader follows the format's line and scoping rules on every input.

import (
	"math"

	"golang.org/x/perf/benchunit"
	"bytes"
	"io"
	"strconv"
	"unicode"
	"unicode/utf8"
)

// ---------------------------------------------------------------- histories

// H02Config: m configuration lines with symbolic keys, set/delete choice and
// value, each followed by a benchmark line; every result is cloned and all
// clones are compared with the reference configuration at the end.
func H02Config() {
	m := vndParam("steps")
	keys := make([]byte, m)
	vals := make([]byte, m)
	set := make([]bool, m)
	var text []byte
	for j := 0; j < m; j++ {
		keys[j] = vndByte("key")
		vndAssume(vndAnd(keys[j] >= 'a', keys[j] <= 'c'))
		set[j] = vndBool("set")
		if set[j] {
			vals[j] = vndByte("val")
			vndAssume(vndAnd(vals[j] > ' ', vals[j] < 0x7f))
			text = append(text, keys[j], ':', ' ', vals[j], '\n')
		} else {
			text = append(text, keys[j], ':', '\n')
		}
		text = append(text, "BenchmarkX 1 1 ns\n"...)
	}
	var r Reader
	r.Reset(bytes.NewReader(text), "f", "zz", "L")
	var clones []*Result
	for r.Scan() {
		res, ok := r.Result().(*Result)
		if !ok {
			vndAssert(false, "only-results")
			return
		}
		clones = append(clones, res.Clone())
	}
	vndAssert(r.Err() == nil, "no-io-error")
	vndAssert(len(clones) == m, "one-result-per-benchmark-line")
	if len(clones) != m {
		return
	}
	vndReach("h02:config-history")
	for j, c := range clones {
		_, line := c.Pos()
		vndAssert(line == 2*(j+1), "result-line-number")
		h02CheckConfig(c, keys, vals, set, j)
	}
}

// h02CheckConfig compares c.Config with the reference after step j: latest
// value per key wins, empty value deletes, each key once, File set, plus
// the tool's internal label.
func h02CheckConfig(c *Result, keys, vals []byte, set []bool, j int) {
	nInternal := 0
	for _, cfg := range c.Config {
		if !cfg.File {
			nInternal++
			vndAssert(cfg.Key == "zz" && string(cfg.Value) == "L", "internal-label-untouched")
			continue
		}
		// must be the live binding of its key
		ok := false
		found := false
		for i := j; i >= 0; i-- {
			isKey := vndAnd(len(cfg.Key) == 1, cfg.Key == string(keys[i:i+1]))
			first := vndAnd(isKey, !found)
			if set[i] {
				ok = vndOr(ok, vndAnd(first, string(cfg.Value) == string(vals[i:i+1])))
			}
			found = vndOr(found, isKey)
		}
		vndAssert(ok, "config-entry-is-latest-value-of-its-key")
	}
	vndAssert(nInternal == 1, "internal-label-present-once")
	// every live reference binding appears exactly once
	for i := j; i >= 0; i-- {
		latest := true
		for i2 := i + 1; i2 <= j; i2++ {
			latest = vndAnd(latest, keys[i2] != keys[i])
		}
		n := 0
		for _, cfg := range c.Config {
			n += vndIteInt(vndAnd(cfg.File, cfg.Key == string(keys[i:i+1])), 1, 0)
		}
		want := 0
		if set[i] {
			want = 1
		}
		vndAssert(vndOr(!latest, n == want), "live-keys-exactly-once-deleted-keys-absent")
	}
}

// ---------------------------------------------------------------- classifier

// h02RefKV is the reference reading of the key/value line rule.
func h02RefKV(line []byte) (key, val []byte, isConfig bool) {
	colon := -1
	for i := 0; i < len(line); {
		r, n := utf8.DecodeRune(line[i:])
		if i == 0 && !unicode.IsLower(r) {
			return nil, nil, false
		}
		if unicode.IsSpace(r) || unicode.IsUpper(r) {
			return nil, nil, false
		}
		if i > 0 && r == ':' {
			colon = i
			break
		}
		i += n
	}
	if colon < 0 {
		return nil, nil, false
	}
	key, val = line[:colon], line[colon+1:]
	if len(val) == 0 {
		return key, nil, true
	}
	if val[0] != ' ' && val[0] != '\t' {
		return nil, nil, false
	}
	for len(val) > 0 && (val[0] == ' ' || val[0] == '\t') {
		val = val[1:]
	}
	return key, val, true
}

func h02IsBlank(c byte) bool {
	return c == ' ' || c == '\t' || c == '\n' || c == '\v' || c == '\f' || c == '\r'
}

// H02Classify: one arbitrary line between a configuration line and a
// benchmark line.
func H02Classify() {
	n := vndParam("len")
	line := vndBytes("line", n)
	ascii := vndParam("ascii") == 1
	for _, c := range line {
		vndAssume(c != '\n')
		if ascii {
			vndAssume(c < 0x80)
		}
	}
	// bufio.ScanLines drops one trailing '\r'
	eff := line
	if n > 0 && line[n-1] == '\r' {
		eff = line[:n-1]
	}
	text := append([]byte("a: 1\n"), line...)
	text = append(text, "\nBenchmarkY 1 1 ns\n"...)
	r := NewReader(bytes.NewReader(text), "f")

	var result *Result
	nErr, nUnit, nRes := 0, 0, 0
	for r.Scan() {
		switch rec := r.Result().(type) {
		case *Result:
			nRes++
			result = rec.Clone()
		case *SyntaxError:
			nErr++
			_, ln := rec.Pos()
			vndAssert(ln == 2, "syntax-error-positioned-on-its-line")
		case *UnitMetadata:
			nUnit++
		}
	}
	vndAssert(r.Err() == nil, "no-io-error")
	vndReach("h02:classified")
	isBench := len(eff) >= 9 && string(eff[:9]) == "Benchmark"
	if isBench {
		return // covered by H02Bench
	}
	vndAssert(nRes == 1 && result != nil, "following-benchmark-line-still-yields-its-result")
	if result == nil {
		return
	}
	_, ln := result.Pos()
	vndAssert(ln == 3, "result-line-number")
	vndAssert(string(result.Name) == "Y" && result.Iters == 1 && len(result.Values) == 1, "result-content-unaffected")

	// Unit line?
	f := 0
	for f < len(eff) && !h02IsBlank(eff[f]) && eff[f] < 0x80 {
		f++
	}
	isUnit := f == 4 && string(eff[:4]) == "Unit" && (len(eff) == 4 || h02IsBlank(eff[4]))
	if len(eff) >= 4 && string(eff[:4]) == "Unit" && !isUnit {
		// "Unit" followed by a non-ASCII byte: leave the field rule to the reader
		if f == 4 && len(eff) > 4 && eff[4] >= 0x80 {
			return
		}
	}
	key, val, isCfg := h02RefKV(eff)
	switch {
	case isUnit:
		vndReach("h02:unit-line")
		vndAssert(result.GetConfig("a") == "1" && len(result.Config) == 1, "unit-line-does-not-touch-configuration")
	case isCfg:
		vndReach("h02:config-line")
		vndAssert(nErr == 0 && nUnit == 0, "config-line-yields-no-record")
		if string(key) == "a" {
			vndAssert(result.GetConfig("a") == string(val), "config-line-overrides-or-deletes")
			want := 1
			if len(val) == 0 {
				want = 0
			}
			vndAssert(len(result.Config) == want, "config-count-after-override")
		} else {
			vndAssert(result.GetConfig("a") == "1", "other-keys-keep-their-value")
			vndAssert(result.GetConfig(string(key)) == string(val), "config-line-sets-key")
			want := 2
			if len(val) == 0 {
				want = 1
			}
			vndAssert(len(result.Config) == want, "config-count-after-set")
		}
		for _, c := range result.Config {
			vndAssert(c.File, "file-configuration-flag")
		}
	default:
		vndReach("h02:ignored-line")
		vndAssert(nErr == 0 && nUnit == 0, "ignored-line-yields-no-record")
		vndAssert(len(result.Config) == 1 && result.GetConfig("a") == "1", "ignored-line-cannot-influence-configuration")
	}
	vndObserveInt("ncfg", len(result.Config))
	vndObserveInt("nerr", nErr)
}

// ---------------------------------------------------------------- benchmark lines

var h02BenchTemplates = []string{
	"BenchmarkX?1?5?u", "BenchmarkX 1 ?? u", "Benchmark???", "BenchmarkX ?? 5 u", "BenchmarkX 1 5 u?7?v", "BenchmarkX 1 5??",
	// '#' is a decimal digit, case-split: measurements and iteration counts at the edge of int64
	"BenchmarkX 1 922337203685477580# u", "BenchmarkX 1 92233720368547758## u 3 v", "BenchmarkX 922337203685477580# 5 u", "BenchmarkX 1 1844674407370955161# u",
	// measurements in units that are normalised, the value possibly zero
	"BenchmarkX 1 ? ns/op", "BenchmarkX 1 ?? MB/s 0 ns",
}

// H02Bench: benchmark lines with symbolic holes; record kind and content
// against a reference field splitter.
func H02Bench() {
	tmpl := h02BenchTemplates[vndParam("tmpl")]
	line := []byte(tmpl)
	for k := range line {
		if line[k] == '?' {
			line[k] = vndByte("hole")
			vndAssume(vndAnd(line[k] != '\n', line[k] < 0x80))
		} else if line[k] == '#' {
			line[k] = vndByte("digit")
			vndAssume(vndAnd(line[k] >= '0', line[k] <= '9'))
			line[k] = vndConcretizeByte(line[k])
		}
	}
	text := append(append([]byte{}, line...), '\n')
	r := NewReader(bytes.NewReader(text), "f")
	var recs []Record
	for r.Scan() {
		rec := r.Result()
		if res, ok := rec.(*Result); ok {
			rec = res.Clone()
		}
		recs = append(recs, rec)
	}
	vndAssert(r.Err() == nil, "no-io-error")
	vndReach("h02:bench")

	// reference: split into fields
	eff := line
	if len(eff) > 0 && eff[len(eff)-1] == '\r' {
		eff = eff[:len(eff)-1]
	}
	rest := eff[9:]
	i := 0
	for i < len(rest) && !h02IsBlank(rest[i]) {
		i++
	}
	name := rest[:i]
	if i == len(rest) {
		// name is the whole line: "go test -v" start line, skipped
		vndReach("h02:name-only")
		vndAssert(len(recs) == 0, "name-only-line-skipped")
		return
	}
	var fields [][]byte
	for i < len(rest) {
		for i < len(rest) && h02IsBlank(rest[i]) {
			i++
		}
		j := i
		for j < len(rest) && !h02IsBlank(rest[j]) {
			j++
		}
		if j > i {
			fields = append(fields, rest[i:j])
		}
		i = j
	}
	vndAssert(len(recs) == 1, "one-record-per-benchmark-line")
	if len(recs) != 1 {
		return
	}
	_, ln := recs[0].Pos()
	vndAssert(ln == 1, "record-line-number")
	res, isRes := recs[0].(*Result)
	wantErr := false
	if len(fields) == 0 {
		wantErr = true // missing iteration count
	} else {
		if _, err := strconv.Atoi(string(fields[0])); err != nil {
			wantErr = true
		}
		if len(fields) == 1 || len(fields)%2 == 0 {
			wantErr = true // missing measurements / missing units
		}
		for k := 1; k+1 < len(fields); k += 2 {
			if _, err := strconv.ParseFloat(string(fields[k]), 64); err != nil {
				wantErr = true
			}
		}
	}
	if wantErr {
		vndReach("h02:bench-error")
	}
	vndAssert(isRes == !wantErr, "malformed-benchmark-line-is-a-positioned-error-wellformed-is-a-result")
	if isRes && !wantErr {
		vndReach("h02:bench-result")
		vndAssert(string(res.Name) == string(name), "result-name")
		it, _ := strconv.Atoi(string(fields[0]))
		vndAssert(res.Iters == it, "result-iterations")
		vndAssert(len(res.Values) == (len(fields)-1)/2, "result-measurement-count")
		for k := range res.Values {
			u := res.Values[k].OrigUnit
			if u == "" {
				u = res.Values[k].Unit
			}
			vndAssert(u == string(fields[2+2*k]), "result-unit-as-written")
			// the measurement as written is the number the field spells
			wv, _ := strconv.ParseFloat(string(fields[1+2*k]), 64)
			gv := res.Values[k].Value
			if res.Values[k].OrigUnit != "" {
				gv = res.Values[k].OrigValue
			}
			vndAssert(vndOr(math.Float64bits(gv) == math.Float64bits(wv), vndAnd(gv != gv, wv != wv)), "result-measurement-as-written")
			// and it is reported in the base unit, whatever the value
			tv, tu := benchunit.Tidy(wv, string(fields[2+2*k]))
			vndAssert(res.Values[k].Unit == tu, "result-measurement-in-the-base-unit")
			vndAssert(vndOr(math.Float64bits(res.Values[k].Value) == math.Float64bits(tv), vndAnd(tv != tv, res.Values[k].Value != res.Values[k].Value)), "result-measurement-in-the-base-unit")
		}
	}
}

// ---------------------------------------------------------------- unit metadata

// H02Unit: two Unit lines with symbolic one-byte unit, key and value.
func H02Unit() {
	u1, k1, v1 := vndByte("u1"), vndByte("k1"), vndByte("v1")
	u2, k2, v2 := vndByte("u2"), vndByte("k2"), vndByte("v2")
	for _, c := range []byte{u1, k1, v1, u2, k2, v2} {
		vndAssume(vndAnd(vndAnd(c >= 'a', c <= 'c'), true))
	}
	text := []byte{'U', 'n', 'i', 't', ' ', u1, ' ', k1, '=', v1, '\n', 'U', 'n', 'i', 't', ' ', u2, ' ', k2, '=', v2, '\n'}
	r := NewReader(bytes.NewReader(text), "f")
	var metas []*UnitMetadata
	var errs []*SyntaxError
	for r.Scan() {
		switch rec := r.Result().(type) {
		case *UnitMetadata:
			metas = append(metas, rec)
		case *SyntaxError:
			errs = append(errs, rec)
		default:
			vndAssert(false, "only-metadata-or-errors")
		}
	}
	vndReach("h02:unit-metadata")
	sameKey := vndAnd(u1 == u2, k1 == k2)
	vndAssert(len(metas) >= 1 && metas[0].Unit == string([]byte{u1}) && metas[0].Key == string([]byte{k1}) && metas[0].Value == string([]byte{v1}), "first-metadata-recorded")
	if len(metas) >= 1 {
		_, ln := metas[0].Pos()
		vndAssert(ln == 1, "metadata-line-number")
	}
	dup := vndAnd(sameKey, v1 == v2)
	conflict := vndAnd(sameKey, v1 != v2)
	vndAssert(vndOr(!dup, len(metas) == 1 && len(errs) == 0), "duplicate-metadata-ignored")
	vndAssert(vndOr(!conflict, len(metas) == 1 && len(errs) == 1), "conflicting-metadata-is-an-error")
	vndAssert(vndOr(sameKey, len(metas) == 2 && len(errs) == 0), "distinct-metadata-both-recorded")
	for _, e := range errs {
		_, ln := e.Pos()
		vndAssert(ln == 2, "metadata-error-positioned")
	}
	um := r.Units()
	m := um.Get(string([]byte{u1}), string([]byte{k1}))
	vndAssert(m != nil && m.Value == string([]byte{v1}), "metadata-lookup")
}

// H02UnitLine: one Unit line with three key=value fields after an earlier line that already
// declared one of them (symbolic position): the repeated pair is ignored, every other pair
// of the line is recorded, in order.
func H02UnitLine() {
	rep := vndChoice("repeated-field", 4) // 3 = none of them was declared before
	conflict := rep < 3 && vndBool("with-another-value")
	fields := []string{"a=1", "b=2", "c=3"}
	text := []byte{}
	if conflict {
		text = append(text, ("Unit u " + fields[rep][:2] + "9\n")...)
	} else if rep < 3 {
		text = append(text, ("Unit u " + fields[rep] + "\n")...)
	} else {
		text = append(text, "Unit v a=1\n"...)
	}
	text = append(text, "Unit u a=1 b=2 c=3\n"...)
	r := NewReader(bytes.NewReader(text), "f")
	got := ""
	nerr := 0
	for r.Scan() {
		switch rec := r.Result().(type) {
		case *UnitMetadata:
			_, ln := rec.Pos()
			if ln == 2 {
				got += rec.Unit + " " + rec.Key + "=" + rec.Value + ";"
			}
		case *SyntaxError:
			_, ln := rec.Pos()
			vndAssert(conflict && ln == 2, "syntax-error-only-for-a-conflicting-pair")
			nerr++
		}
	}
	vndReach("h02:unit-line")
	vndAssert(nerr == vndIteInt(conflict, 1, 0), "conflicting-metadata-is-one-positioned-error")
	vndAssert(r.Err() == nil, "conflict-is-not-fatal")
	want := ""
	for k, f := range fields {
		if k != rep {
			want += "u " + f + ";"
		}
	}
	vndAssert(got == want, "every-new-pair-of-the-line-is-recorded")
	for k, f := range fields {
		m := r.Units().Get("u", f[:1])
		if conflict && k == rep {
			vndAssert(m != nil && m.Value == "9", "first-declaration-stands")
		} else {
			vndAssert(m != nil && m.Value == f[2:], "metadata-lookup")
		}
	}
}

// H02UnitMalformed: fields without '=' or with an empty key.
func H02UnitMalformed() {
	n := vndParam("len")
	f := vndBytes("f", n)
	for _, c := range f {
		vndAssume(vndAnd(c > ' ', c < 0x7f))
	}
	text := append([]byte("Unit u "), f...)
	text = append(text, '\n')
	r := NewReader(bytes.NewReader(text), "f")
	nMeta, nErr := 0, 0
	for r.Scan() {
		switch rec := r.Result().(type) {
		case *UnitMetadata:
			nMeta++
		case *SyntaxError:
			nErr++
			_, ln := rec.Pos()
			vndAssert(ln == 1, "metadata-error-positioned")
		}
	}
	eq := -1
	for k := len(f) - 1; k >= 0; k-- {
		if f[k] == '=' {
			eq = k
		}
	}
	vndReach("h02:unit-malformed")
	if eq <= 0 {
		vndAssert(nMeta == 0 && nErr == 1, "field-without-key-or-equals-is-an-error")
	} else {
		vndAssert(nMeta == 1 && nErr == 0, "key-equals-value-accepted")
	}
}

// h02Chunks delivers data in small pieces, as a pipe or network stream does.
type h02Chunks struct {
	data []byte
	off  int
	n    int
}

func (c *h02Chunks) Read(p []byte) (int, error) {
	if c.off >= len(c.data) {
		return 0, io.EOF
	}
	k := c.n
	if k > len(p) {
		k = len(p)
	}
	if k > len(c.data)-c.off {
		k = len(c.data) - c.off
	}
	copy(p, c.data[c.off:c.off+k])
	c.off += k
	return k, nil
}

// H02Long: an input longer than the scanner's buffer, delivered in small chunks: results with
// symbolic names, configuration values and units sit between two runs of foreign lines of
// about 2.4 and 5 KB, so that the scanner's buffer is shifted and refilled after they were
// cloned. Every clone still has the name, iteration count, measurements and configuration
// of its own line when reading has finished.
func H02Long() {
	n := vndParam("results")
	chunk := []int{257, 4096, 61}[vndParam("chunk")]
	filler := []byte("# foreign line that the reader ignores, padded to sixty bytes\n")
	var text []byte
	for i := 0; i < 40; i++ {
		text = append(text, filler...)
	}
	nm, val, unit := make([]byte, n), make([]byte, n), make([]byte, n)
	for j := 0; j < n; j++ {
		nm[j], val[j], unit[j] = vndByte("name"), vndByte("val"), vndByte("unit")
		for _, c := range []byte{nm[j], val[j], unit[j]} {
			vndAssume(vndAnd(c >= 'a', c <= 'z'))
		}
		text = append(text, "k: "...)
		text = append(text, val[j], '\n')
		text = append(text, "BenchmarkN"...)
		text = append(text, nm[j])
		text = append(text, " 7 "...)
		text = append(text, '1'+byte(j))
		text = append(text, " u"...)
		text = append(text, unit[j], '\n')
	}
	for i := 0; i < 85; i++ {
		text = append(text, filler...)
	}
	text = append(text, "BenchmarkLast 1 1 u\n"...)
	var r Reader
	r.Reset(&h02Chunks{data: text, n: chunk}, "f")
	var clones []*Result
	for r.Scan() {
		res, ok := r.Result().(*Result)
		if !ok {
			vndAssert(false, "only-results")
			return
		}
		clones = append(clones, res.Clone())
	}
	vndAssert(r.Err() == nil, "no-io-error")
	vndAssert(len(clones) == n+1, "one-result-per-benchmark-line")
	if len(clones) != n+1 {
		return
	}
	vndReach("h02:long")
	for j := 0; j < n; j++ {
		c := clones[j]
		vndAssert(string(c.Name) == "N"+string(nm[j:j+1]), "clone-keeps-its-name-as-reading-continues")
		vndAssert(c.Iters == 7, "clone-keeps-its-iteration-count")
		vndAssert(len(c.Values) == 1 && c.Values[0].Value == float64(j+1) && c.Values[0].Unit == "u"+string(unit[j:j+1]), "clone-keeps-its-measurements")
		vndAssert(c.GetConfig("k") == string(val[j:j+1]), "clone-keeps-its-configuration")
		_, line := c.Pos()
		vndAssert(line == 40+2*(j+1), "result-line-number")
	}
	vndAssert(string(clones[n].Name) == "Last", "last-result-name")
}

// H02Label: a label supplied by the tool on a key that the file then sets itself, possibly
// to the very same value: from that line on the key is file configuration with the file's
// value; before it, it is the tool's label; deleting it removes it.
func H02Label() {
	c := vndByte("val")
	vndAssume(vndOr(c == 'v', c == 'w'))
	del := vndBool("delete")
	text := []byte("BenchmarkX 1 1 ns\na: ")
	text = append(text, c, '\n')
	text = append(text, "BenchmarkX 1 1 ns\n"...)
	if del {
		text = append(text, "a:\nBenchmarkX 1 1 ns\n"...)
	}
	var r Reader
	r.Reset(bytes.NewReader(text), "f", "a", "v")
	var clones []*Result
	for r.Scan() {
		if res, ok := r.Result().(*Result); ok {
			clones = append(clones, res.Clone())
		}
	}
	vndReach("h02:label")
	want := 2
	if del {
		want = 3
	}
	vndAssert(len(clones) == want, "one-result-per-benchmark-line")
	if len(clones) != want {
		return
	}
	pos, ok := clones[0].ConfigIndex("a")
	vndAssert(ok && !clones[0].Config[pos].File && string(clones[0].Config[pos].Value) == "v", "tool-label-present-before-the-file-sets-the-key")
	pos, ok = clones[1].ConfigIndex("a")
	vndAssert(ok && clones[1].Config[pos].File && string(clones[1].Config[pos].Value) == string([]byte{c}), "key-set-by-the-file-is-file-configuration-with-the-files-value")
	if del {
		_, ok = clones[2].ConfigIndex("a")
		vndAssert(!ok, "deleted-key-absent")
	}
}

// h02Failing yields some data and then an I/O error.
type h02Failing struct {
	data []byte
	done bool
}

func (f *h02Failing) Read(p []byte) (int, error) {
	if f.done {
		return 0, io.ErrUnexpectedEOF
	}
	f.done = true
	return copy(p, f.data), nil
}

// H02Reset: a reader whose first input ended in an I/O error is reset onto a second input:
// the second input's records are what the format prescribes, with their own line numbers,
// configuration and no error left over from the first.
func H02Reset() {
	v := vndByte("val")
	vndAssume(vndAnd(v >= 'a', v <= 'z'))
	first := []byte("a: 1\nBenchmarkF 1 1 ns\nBenchmarkTrunc")
	second := append([]byte("b: "), v, '\n')
	second = append(second, "BenchmarkS 2 3 u\n"...)
	var r Reader
	r.Reset(&h02Failing{data: first}, "one")
	n1 := 0
	for r.Scan() {
		n1++
	}
	vndAssert(r.Err() != nil, "io-error-is-reported")
	r.Reset(bytes.NewReader(second), "two")
	var got []*Result
	for r.Scan() {
		if res, ok := r.Result().(*Result); ok {
			got = append(got, res.Clone())
		}
	}
	vndReach("h02:reset")
	vndAssert(r.Err() == nil, "no-error-left-over-from-the-previous-input")
	vndAssert(len(got) == 1, "one-result-per-benchmark-line")
	if len(got) != 1 {
		return
	}
	f, line := got[0].Pos()
	vndAssert(f == "two" && line == 2, "result-line-number")
	vndAssert(string(got[0].Name) == "S" && got[0].Iters == 2, "result-name")
	vndAssert(got[0].GetConfig("b") == string([]byte{v}) && got[0].GetConfig("a") == "", "file-configuration-does-not-leak-into-the-next-input")
}

package stats

// C11: Mann-Whitney U statistics and p-values are exact for small samples.

import "math"

func h11NotNaN(v float64) bool { return v == v }

// h11Choose enumerates all ways to pick k of n items and calls f with the
// membership mask.
func h11Choose(n, k int, f func(mask uint)) {
	for m := uint(0); m < 1<<uint(n); m++ {
		c := 0
		for b := 0; b < n; b++ {
			if m&(1<<uint(b)) != 0 {
				c++
			}
		}
		if c == k {
			f(m)
		}
	}
}

func h11Close(a, b float64) bool { return math.Abs(a-b) <= 1e-12 }

func H11Exact() {
	n1, n2 := vndParam("n1"), vndParam("n2")
	sorted := vndParam("sorted") == 1
	x1 := make([]float64, n1)
	x2 := make([]float64, n2)
	for i := range x1 {
		x1[i] = vndFloat64("x1")
		vndAssume(h11NotNaN(x1[i]))
		if sorted && i > 0 {
			vndAssume(x1[i-1] <= x1[i])
		}
	}
	for i := range x2 {
		x2[i] = vndFloat64("x2")
		vndAssume(h11NotNaN(x2[i]))
		if sorted && i > 0 {
			vndAssume(x2[i-1] <= x2[i])
		}
	}
	rl, errL := MannWhitneyUTest(x1, x2, LocationLess)
	rg, errG := MannWhitneyUTest(x1, x2, LocationGreater)
	rd, errD := MannWhitneyUTest(x1, x2, LocationDiffers)
	rs, errS := MannWhitneyUTest(x2, x1, LocationDiffers)

	// pooled comparison matrix (each comparison is decided by the path condition)
	n := n1 + n2
	pool := append(append([]float64{}, x1...), x2...)
	gt := make([][]int, n) // 2 if a>b, 1 if equal, 0 if less  (in half units)
	ties := false
	allEqual := true
	for i := range gt {
		gt[i] = make([]int, n)
		for j := range gt[i] {
			switch {
			case i == j:
				gt[i][j] = 1
			case pool[i] > pool[j]:
				gt[i][j] = 2
				allEqual = false
			case pool[i] == pool[j]:
				gt[i][j] = 1
				ties = true
			default:
				allEqual = false
			}
		}
	}
	vndReach("h11:ranked")
	if allEqual {
		vndReach("h11:all-equal")
		vndAssert(errL == ErrSamplesEqual && errG == ErrSamplesEqual && errD == ErrSamplesEqual, "all-equal-values-are-an-error")
		return
	}
	vndAssert(errL == nil && errG == nil && errD == nil && errS == nil, "no-error-on-distinguishable-samples")
	if errL != nil || errG != nil || errD != nil || errS != nil {
		return
	}
	// U in half units for a given assignment of pool members to group 1
	twoU := func(mask uint) int {
		u := 0
		for i := 0; i < n; i++ {
			if mask&(1<<uint(i)) == 0 {
				continue
			}
			for j := 0; j < n; j++ {
				if mask&(1<<uint(j)) == 0 {
					u += gt[i][j]
				}
			}
		}
		return u
	}
	obs := twoU((1 << uint(n1)) - 1)
	total, le, ge := 0, 0, 0
	h11Choose(n, n1, func(m uint) {
		u := twoU(m)
		total++
		if u <= obs {
			le++
		}
		if u >= obs {
			ge++
		}
	})
	pLess := float64(le) / float64(total)
	pGreater := float64(ge) / float64(total)
	pTwo := math.Min(1, 2*math.Min(pLess, pGreater))
	sfx := "-no-ties"
	if ties {
		sfx = "-with-ties"
		vndReach("h11:ties")
	}
	vndAssert(rl.U == float64(obs)/2 && rg.U == rl.U && rd.U == rl.U, "u-is-pairs-larger-plus-half-the-ties")
	vndAssert(rl.N1 == n1 && rl.N2 == n2, "sample-sizes-reported")
	vndAssert(h11Close(rl.P, pLess), "p-less-is-the-exact-permutation-probability"+sfx)
	vndAssert(h11Close(rg.P, pGreater), "p-greater-is-the-exact-permutation-probability"+sfx)
	// The known defect (known_findings.json) doubles P(U <= min(U1,U2)) taken
	// from this sample order's distribution; any other deviation is new.
	small := obs
	if 2*n1*n2-obs < small {
		small = 2*n1*n2 - obs
	}
	leSmall := 0
	h11Choose(n, n1, func(m uint) {
		if twoU(m) <= small {
			leSmall++
		}
	})
	pDoubled := math.Min(1, 2*float64(leSmall)/float64(total))
	if 2*obs == 2*n1*n2 {
		pDoubled = 1
	}
	vndAssert(h11Close(rd.P, pTwo) || (ties && h11Close(rd.P, pDoubled)), "p-two-sided-deviates-at-most-by-the-known-tie-asymmetry")
	vndAssert(h11Close(rd.P, pTwo), "p-two-sided-is-twice-the-smaller-tail-capped-at-1"+sfx)
	vndAssert(rd.P >= 0 && rd.P <= 1 && rl.P >= 0 && rl.P <= 1 && rg.P >= 0 && rg.P <= 1, "p-in-unit-interval"+sfx)
	vndAssert(h11Close(rd.P, rs.P), "two-sided-p-unchanged-when-samples-are-swapped"+sfx)
	vndObserveF64("U", rl.U)
	vndObserveF64("pless", rl.P)
}

// H11Dist: the U distribution's mass function sums to 1 and accumulates to
// its distribution function, for the tie vector of a symbolic sample pair.
func H11Dist() {
	n1, n2 := vndParam("n1"), vndParam("n2")
	n := n1 + n2
	// a sorted pooled sample: consecutive values equal or increasing (symbolic)
	var T []int
	run := 1
	for i := 1; i < n; i++ {
		if vndBool("tie") {
			run++
		} else {
			T = append(T, run)
			run = 1
		}
	}
	T = append(T, run)
	if len(T) == 1 {
		return
	}
	hasTies := len(T) < n
	d := UDist{N1: n1, N2: n2}
	sfx := "-no-ties"
	if hasTies {
		d.T = T
		sfx = "-with-ties"
	}
	vndReach("h11:dist")
	sum := 0.0
	step := 1.0
	if hasTies {
		step = 0.5
	}
	okAcc := true
	for u := 0.0; u <= float64(n1*n2); u += step {
		p := d.PMF(u)
		sum += p
		if !h11Close(d.CDF(u), sum) {
			okAcc = false
		}
		if p < -1e-15 {
			okAcc = false
		}
	}
	vndAssert(h11Close(sum, 1), "pmf-sums-to-1"+sfx)
	vndAssert(okAcc, "pmf-accumulates-to-cdf"+sfx)
}

// h11LargePattern returns, for a concrete pattern number, the level (rank class) of
// every element of the two samples; equal levels are tied values.
func h11LargePattern(pat int) (l1, l2 []int, levels int) {
	mk := func(n1, n2 int) {
		// untied, interleaved with a drift so that U is not central
		for i := 0; i < n1; i++ {
			l1 = append(l1, 3*i)
		}
		for i := 0; i < n2; i++ {
			l2 = append(l2, 3*(i+2)+1+(i%2)) // never a multiple of 3, all distinct: no ties unless a pattern adds them
		}
	}
	switch pat {
	case 0: // 26 v 26, ties in the middle, unique maximum
		mk(26, 26)
		l2[5], l2[6], l2[7] = l1[6], l1[6], l1[9]
	case 1: // 26 v 26, ties only at the maximum
		mk(26, 26)
		l1[25] = l2[25]
		l2[24] = l2[25]
	case 2: // 51 v 51 without ties
		mk(51, 51)
	case 3: // 26 v 3 with ties
		mk(26, 3)
		l2[1] = l1[10]
	case 4: // 30 v 30, one tie at the minimum, unique maximum
		mk(30, 30)
		l2[0] = l1[0]
	case 5: // 51 v 2 without ties
		mk(51, 2)
	case 6: // 20 v 30 with ties: only the second sample is beyond the limit for tied data
		mk(20, 30)
		l2[3] = l1[4]
	case 7: // 30 v 20 with ties
		mk(30, 20)
		l2[3] = l1[4]
	case 8: // 30 v 30, the only tie lies wholly inside the second sample
		mk(30, 30)
		l2[4] = l2[3]
	case 9: // 30 v 30, the only tie lies wholly inside the first sample
		mk(30, 30)
		l1[7] = l1[6]
	default:
		panic("no such pattern")
	}
	// compress the levels to 0..levels-1 preserving order
	used := map[int]bool{}
	for _, l := range l1 {
		used[l] = true
	}
	for _, l := range l2 {
		used[l] = true
	}
	idx := map[int]int{}
	for l := 0; l < 400; l++ {
		if used[l] {
			idx[l] = levels
			levels++
		}
	}
	for i := range l1 {
		l1[i] = idx[l1[i]]
	}
	for i := range l2 {
		l2[i] = idx[l2[i]]
	}
	return
}

// H11Large: samples beyond the exact limits. Some values are arbitrary floats (see below) subject to
// one concrete weak ordering of the pooled values (pattern); U must be the pair count and
// the p-value the tie- and continuity-corrected normal approximation, evaluated here
// independently from the ordering alone.
func H11Large() {
	pat := vndParam("pattern")
	alt := []LocationHypothesis{LocationLess, LocationDiffers, LocationGreater}[vndParam("alt")]
	l1, l2, levels := h11LargePattern(pat)
	// Level k has the concrete value 1000+10k, except for the tied levels, the extreme
	// levels and every seventh level, whose values are arbitrary floats strictly between
	// their neighbours' concrete values (every float comparison involving them is decided
	// by the solver).
	cntL := make([]int, levels)
	for _, l := range l1 {
		cntL[l]++
	}
	for _, l := range l2 {
		cntL[l]++
	}
	vals := make([]float64, levels)
	for k := range vals {
		vals[k] = float64(1000 + 10*k)
		if cntL[k] > 1 || k == 0 || k == levels-1 || k%7 == 3 {
			v := vndFloat64("v")
			vndAssume(vndAnd(v > float64(1000+10*k-10), v < float64(1000+10*k+10)))
			if k > 0 {
				vndAssume(vals[k-1] < v)
			}
			vals[k] = v
		} else if k > 0 {
			vndAssume(vals[k-1] < vals[k])
		}
	}
	n1, n2 := len(l1), len(l2)
	x1, x2 := make([]float64, n1), make([]float64, n2)
	// hand the samples over unsorted (reversed)
	for i, l := range l1 {
		x1[n1-1-i] = vals[l]
	}
	for i, l := range l2 {
		x2[n2-1-i] = vals[l]
	}
	r, err := MannWhitneyUTest(x1, x2, alt)
	vndReach("h11:large")
	vndAssert(err == nil && r != nil, "large-samples-are-tested")
	if err != nil || r == nil {
		return
	}
	// U from the ordering
	u2 := 0 // in half units
	for _, a := range l1 {
		for _, b := range l2 {
			if a > b {
				u2 += 2
			} else if a == b {
				u2++
			}
		}
	}
	u := float64(u2) / 2
	vndAssert(r.U == u, "large-u-is-the-pair-count")
	// tie correction from the multiplicities of the levels
	cnt := make([]int, levels)
	for _, l := range l1 {
		cnt[l]++
	}
	for _, l := range l2 {
		cnt[l]++
	}
	tc := 0.0
	for _, c := range cnt {
		tc += float64(c*c*c - c)
	}
	N := float64(n1 + n2)
	mu := float64(n1*n2) / 2
	sigma := math.Sqrt(float64(n1*n2) / 12 * ((N + 1) - tc/(N*(N-1))))
	d := u - mu
	cdf := func(z float64) float64 { return 0.5 * math.Erfc(-z/math.Sqrt2) }
	want := 0.0
	switch alt {
	case LocationLess:
		want = cdf((d + 0.5) / sigma)
	case LocationGreater:
		want = 1 - cdf((d-0.5)/sigma)
	default:
		ad := math.Abs(d) - 0.5
		if d == 0 {
			ad = 0
		}
		want = 2 * (1 - cdf(ad/sigma))
	}
	vndObserveF64("p", r.P)
	vndAssert(math.Abs(r.P-want) <= 1e-9*math.Max(want, 1e-300)+1e-15, "large-p-is-the-corrected-normal-approximation")
	vndAssert(r.P >= 0 && r.P <= 1, "large-p-in-unit-interval")
}

// H11Choose: the binomial coefficient used to normalise the tied distribution, for every
// (n, k) up to the bound (n and k are solver-chosen and case-split), against Pascal's rule.
func H11Choose() {
	max := vndParam("max")
	n := vndConcretize(vndInt("n", 0, max))
	k := vndConcretize(vndInt("k", 0, n))
	row := []uint64{1}
	for i := 1; i <= n; i++ {
		next := make([]uint64, i+1)
		next[0], next[i] = 1, 1
		for j := 1; j < i; j++ {
			next[j] = row[j-1] + row[j]
		}
		row = next
	}
	want := float64(row[k])
	got := mathChoose(n, k)
	vndReach("h11:choose")
	vndAssert(math.Abs(got-want) <= 1e-9*want, "binomial-coefficient")
	vndAssert(mathChoose(n, n+1) == 0 && mathChoose(n, -1) == 0, "binomial-coefficient-outside")
}

package stats

// C11: Mann-Whitney U statistics and p-values are exact for small samples.

import "math"

func h11NotNaN(v float64) bool { return v == v }

// h11Choose enumerates all ways to pick k of n items and calls f with the
// membership mask.
func h11Choose(n, k int, f func(mask uint)) {
	for m := uint(0); m < 1<<uint(n); m++ {
		c := 0
		for b := 0; b < n; b++ {
			if m&(1<<uint(b)) != 0 {
				c++
			}
		}
		if c == k {
			f(m)
		}
	}
}

func h11Close(a, b float64) bool { return math.Abs(a-b) <= 1e-12 }

func H11Exact() {
	n1, n2 := vndParam("n1"), vndParam("n2")
	sorted := vndParam("sorted") == 1
	x1 := make([]float64, n1)
	x2 := make([]float64, n2)
	for i := range x1 {
		x1[i] = vndFloat64("x1")
		vndAssume(h11NotNaN(x1[i]))
		if sorted && i > 0 {
			vndAssume(x1[i-1] <= x1[i])
		}
	}
	for i := range x2 {
		x2[i] = vndFloat64("x2")
		vndAssume(h11NotNaN(x2[i]))
		if sorted && i > 0 {
			vndAssume(x2[i-1] <= x2[i])
		}
	}
	rl, errL := MannWhitneyUTest(x1, x2, LocationLess)
	rg, errG := MannWhitneyUTest(x1, x2, LocationGreater)
	rd, errD := MannWhitneyUTest(x1, x2, LocationDiffers)
	rs, errS := MannWhitneyUTest(x2, x1, LocationDiffers)

	// pooled comparison matrix (each comparison is decided by the path condition)
	n := n1 + n2
	pool := append(append([]float64{}, x1...), x2...)
	gt := make([][]int, n) // 2 if a>b, 1 if equal, 0 if less  (in half units)
	ties := false
	allEqual := true
	for i := range gt {
		gt[i] = make([]int, n)
		for j := range gt[i] {
			switch {
			case i == j:
				gt[i][j] = 1
			case pool[i] > pool[j]:
				gt[i][j] = 2
				allEqual = false
			case pool[i] == pool[j]:
				gt[i][j] = 1
				ties = true
			default:
				allEqual = false
			}
		}
	}
	vndReach("h11:ranked")
	if allEqual {
		vndReach("h11:all-equal")
		vndAssert(errL == ErrSamplesEqual && errG == ErrSamplesEqual && errD == ErrSamplesEqual, "all-equal-values-are-an-error")
		return
	}
	vndAssert(errL == nil && errG == nil && errD == nil && errS == nil, "no-error-on-distinguishable-samples")
	if errL != nil || errG != nil || errD != nil || errS != nil {
		return
	}
	// U in half units for a given assignment of pool members to group 1
	twoU := func(mask uint) int {
		u := 0
		for i := 0; i < n; i++ {
			if mask&(1<<uint(i)) == 0 {
				continue
			}
			for j := 0; j < n; j++ {
				if mask&(1<<uint(j)) == 0 {
					u += gt[i][j]
				}
			}
		}
		return u
	}
	obs := twoU((1 << uint(n1)) - 1)
	total, le, ge := 0, 0, 0
	h11Choose(n, n1, func(m uint) {
		u := twoU(m)
		total++
		if u <= obs {
			le++
		}
		if u >= obs {
			ge++
		}
	})
	pLess := float64(le) / float64(total)
	pGreater := float64(ge) / float64(total)
	pTwo := math.Min(1, 2*math.Min(pLess, pGreater))
	sfx := "-no-ties"
	if ties {
		sfx = "-with-ties"
		vndReach("h11:ties")
	}
	vndAssert(rl.U == float64(obs)/2 && rg.U == rl.U && rd.U == rl.U, "u-is-pairs-larger-plus-half-the-ties")
	vndAssert(rl.N1 == n1 && rl.N2 == n2, "sample-sizes-reported")
	vndAssert(h11Close(rl.P, pLess), "p-less-is-the-exact-permutation-probability"+sfx)
	vndAssert(h11Close(rg.P, pGreater), "p-greater-is-the-exact-permutation-probability"+sfx)
	// The known defect (known_findings.json) doubles P(U <= min(U1,U2)) taken
	// from this sample order's distribution; any other deviation is new.
	small := obs
	if 2*n1*n2-obs < small {
		small = 2*n1*n2 - obs
	}
	leSmall := 0
	h11Choose(n, n1, func(m uint) {
		if twoU(m) <= small {
			leSmall++
		}
	})
	pDoubled := math.Min(1, 2*float64(leSmall)/float64(total))
	if 2*obs == 2*n1*n2 {
		pDoubled = 1
	}
	vndAssert(h11Close(rd.P, pTwo) || (ties && h11Close(rd.P, pDoubled)), "p-two-sided-deviates-at-most-by-the-known-tie-asymmetry")
	vndAssert(h11Close(rd.P, pTwo), "p-two-sided-is-twice-the-smaller-tail-capped-at-1"+sfx)
	vndAssert(rd.P >= 0 && rd.P <= 1 && rl.P >= 0 && rl.P <= 1 && rg.P >= 0 && rg.P <= 1, "p-in-unit-interval"+sfx)
	vndAssert(h11Close(rd.P, rs.P), "two-sided-p-unchanged-when-samples-are-swapped"+sfx)
	vndObserveF64("U", rl.U)
	vndObserveF64("pless", rl.P)
}

// H11Dist: the U distribution's mass function sums to 1 and accumulates to
// its distribution function, for the tie vector of a symbolic sample pair.
func H11Dist() {
	n1, n2 := vndParam("n1"), vndParam("n2")
	n := n1 + n2
	// a sorted pooled sample: consecutive values equal or increasing (symbolic)
	var T []int
	run := 1
	for i := 1; i < n; i++ {
		if vndBool("tie") {
			run++
		} else {
			T = append(T, run)
			run = 1
		}
	}
	T = append(T, run)
	if len(T) == 1 {
		return
	}
	hasTies := len(T) < n
	d := UDist{N1: n1, N2: n2}
	sfx := "-no-ties"
	if hasTies {
		d.T = T
		sfx = "-with-ties"
	}
	vndReach("h11:dist")
	sum := 0.0
	step := 1.0
	if hasTies {
		step = 0.5
	}
	okAcc := true
	for u := 0.0; u <= float64(n1*n2); u += step {
		p := d.PMF(u)
		sum += p
		if !h11Close(d.CDF(u), sum) {
			okAcc = false
		}
		if p < -1e-15 {
			okAcc = false
		}
	}
	vndAssert(h11Close(sum, 1), "pmf-sums-to-1"+sfx)
	vndAssert(okAcc, "pmf-accumulates-to-cdf"+sfx)
}

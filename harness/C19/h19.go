package db

// C19 (the part before SQL): query words, per-key merging and the generated
// subselects mean what the words say.

import (
	"io"
)

// h19Den is the denotation of a part at a stored label value v.
func h19Den(p part, v string) bool {
	switch p.operator {
	case equals:
		return v == p.value
	case lt:
		return v < p.value
	case gt:
		return v > p.value
	case ltgt:
		return vndAnd(v < p.value, v > p.value2)
	}
	panic("bad operator")
}

var h19Ops = []operation{equals, lt, gt}

func h19Part(name string, vlen int) part {
	op := h19Ops[vndChoice(name+"op", 3)]
	return part{key: "k", operator: op, value: vndString(name+"val", vlen)}
}

// H19Merge: merging parts on one key denotes the conjunction; io.EOF only
// when the conjunction is empty; merge order does not matter.
func H19Merge() {
	n := vndParam("parts")
	lens := vndParam("lens") // base-3 digits: value lengths 0..2
	plen := vndParam("probe")
	var ps []part
	for i := 0; i < n; i++ {
		ps = append(ps, h19Part(string([]byte{'p', '0' + byte(i)}), lens%3))
		lens /= 3
	}
	v := vndString("probe", plen)
	want := true
	for _, p := range ps {
		want = vndAnd(want, h19Den(p, v))
	}
	merged := ps[0]
	var err error
	for _, p := range ps[1:] {
		merged, err = merged.merge(p)
		if err != nil {
			break
		}
	}
	vndReach("h19:merged")
	if err != nil {
		vndAssert(err == io.EOF, "merge-error-is-eof")
		vndReach("h19:eof")
		vndAssert(!want, "eof-only-when-no-value-can-satisfy-the-conjunction")
	} else {
		vndAssert(merged.key == "k", "merged-key")
		vndAssert(h19Den(merged, v) == want, "merged-part-denotes-the-conjunction")
	}
	// merging in the reverse order gives the same meaning
	rev := ps[n-1]
	var rerr error
	for i := n - 2; i >= 0; i-- {
		rev, rerr = rev.merge(ps[i])
		if rerr != nil {
			break
		}
	}
	// Whether an empty conjunction is detected at merge time (io.EOF) or only
	// later (a part such as k:"" is rejected when the SQL is generated) may
	// depend on the order; the meaning may not.
	if rerr != nil {
		vndAssert(rerr == io.EOF, "merge-error-is-eof")
		vndAssert(!want, "eof-only-when-no-value-can-satisfy-the-conjunction")
	} else {
		vndAssert(h19Den(rev, v) == want, "merge-order-does-not-change-the-denotation")
	}
}

// H19Word: parseWord splits at the first of ':', '<', '>' and rejects
// blanks or upper case before it.
func H19Word() {
	n := vndParam("len")
	w := vndBytes("w", n)
	for _, c := range w {
		vndAssume(c < 0x80)
	}
	p, err := parseWord(string(w))
	vndReach("h19:word")
	idx := -1
	bad := false
	for i := 0; i < n && idx < 0 && !bad; i++ {
		c := w[i]
		switch {
		case c == ':' || c == '<' || c == '>':
			idx = i
		case c == ' ' || c == '\t' || c == '\n' || c == '\v' || c == '\f' || c == '\r' || (c >= 'A' && c <= 'Z'):
			bad = true
		}
	}
	if idx < 0 {
		vndAssert(err != nil, "word-without-operator-rejected")
		return
	}
	vndReach("h19:word-ok")
	vndAssert(err == nil, "word-with-operator-accepted")
	if err != nil {
		return
	}
	vndAssert(p.key == string(w[:idx]) && p.value == string(w[idx+1:]), "word-split-at-first-operator")
	wantOp := equals
	if w[idx] == '<' {
		wantOp = lt
	} else if w[idx] == '>' {
		wantOp = gt
	}
	vndAssert(p.operator == wantOp, "word-operator")
}

// h19Eval evaluates one generated subselect on a stored label (name, value).
func h19Eval(sql string, args []interface{}, name, value string) (bool, bool) {
	arg := func(i int) string { return args[i].(string) }
	switch sql {
	case "SELECT UploadID, RecordID FROM RecordLabels WHERE Name = ? AND Value = ?":
		return vndAnd(name == arg(0), value == arg(1)), len(args) == 2
	case "SELECT UploadID, RecordID FROM RecordLabels WHERE Name = ? AND Value < ?":
		return vndAnd(name == arg(0), value < arg(1)), len(args) == 2
	case "SELECT UploadID, RecordID FROM RecordLabels WHERE Name = ? AND Value > ?":
		return vndAnd(name == arg(0), value > arg(1)), len(args) == 2
	case "SELECT UploadID, RecordID FROM RecordLabels WHERE Name = ?":
		return name == arg(0), len(args) == 1
	case "SELECT UploadID, RecordID FROM RecordLabels WHERE Name = ? AND Value < ? AND Value > ?":
		return vndAnd(name == arg(0), vndAnd(value < arg(1), value > arg(2))), len(args) == 3
	}
	return false, false
}

// H19Query: a query of two or three words over keys k and j; the generated
// subselects, evaluated on a record carrying labels k=v and j=u, select it
// exactly when every word is satisfied.
func H19Query() {
	shape := vndParam("shape")
	ops := []byte{':', '<', '>'}
	op := func(name string) byte { return ops[vndChoice(name, 3)] }
	val := func(name string) byte {
		c := vndByte(name)
		vndAssume(vndAnd(c >= 'a', c <= 'z'))
		return c
	}
	o1, o2, o3 := op("o1"), op("o2"), op("o3")
	v1, v2, v3 := val("v1"), val("v2"), val("v3")
	var q []byte
	switch shape {
	case 0: // k?v1 k?v2
		q = []byte{'k', o1, v1, ' ', 'k', o2, v2}
	case 1: // k?v1 j?v3 k?v2  (keys interleaved; subselects sorted by key)
		q = []byte{'k', o1, v1, ' ', 'j', o3, v3, ' ', 'k', o2, v2}
	case 2: // k?v1 k?v2 k?v3
		q = []byte{'k', o1, v1, ' ', 'k', o2, v2, ' ', 'k', o3, v3}
	}
	sqls, args, err := parseQuery(string(q))
	kv, ju := vndString("k", 1), vndString("j", 1)
	den := func(o, c byte, v string) bool {
		p := part{operator: map[byte]operation{':': equals, '<': lt, '>': gt}[o], value: string([]byte{c})}
		return h19Den(p, v)
	}
	var want bool
	switch shape {
	case 0:
		want = vndAnd(den(o1, v1, kv), den(o2, v2, kv))
	case 1:
		want = vndAnd(vndAnd(den(o1, v1, kv), den(o2, v2, kv)), den(o3, v3, ju))
	case 2:
		want = vndAnd(vndAnd(den(o1, v1, kv), den(o2, v2, kv)), den(o3, v3, kv))
	}
	vndReach("h19:query")
	if err != nil {
		vndAssert(err == io.EOF, "only-empty-conjunctions-fail")
		vndAssert(!want, "query-rejected-as-empty-only-if-nothing-can-match")
		return
	}
	nkeys := 1
	if shape == 1 {
		nkeys = 2
	}
	vndAssert(len(sqls) == nkeys, "one-subselect-per-key")
	if len(sqls) != nkeys {
		return
	}
	got := true
	pos := 0
	for i, s := range sqls {
		// count placeholders to find this subselect's arguments
		na := 0
		for k := 0; k < len(s); k++ {
			if s[k] == '?' {
				na++
			}
		}
		a := args[pos : pos+na]
		pos += na
		name, value := "k", kv
		if shape == 1 && i == 0 {
			name, value = "j", ju // keys are processed in sorted order
		}
		sel, ok := h19Eval(s, a, name, value)
		vndAssert(ok, "subselect-is-a-documented-template")
		got = vndAnd(got, sel)
	}
	vndAssert(pos == len(args), "arguments-consumed-exactly")
	vndAssert(got == want, "subselects-select-exactly-the-records-satisfying-every-word")
}

package query

// C19: query text is split into words shell-style.

// h19RefSplit: blanks (space, tab) separate words unless quoted by double
// quotes or escaped by a backslash; quotes and escaping backslashes are
// removed; inside and outside quotes a backslash takes the next byte
// literally.
func h19RefSplit(q []byte) [][]byte {
	var words [][]byte
	var cur []byte
	quoting := false
	for i := 0; i < len(q); i++ {
		c := q[i]
		switch {
		case c == '\\':
			if i+1 < len(q) {
				i++
				cur = append(cur, q[i])
			}
		case c == '"':
			quoting = !quoting
		case (c == ' ' || c == '\t') && !quoting:
			if len(cur) > 0 {
				words = append(words, cur)
			}
			cur = nil
		default:
			cur = append(cur, c)
		}
	}
	if len(cur) > 0 {
		words = append(words, cur)
	}
	return words
}

func H19Split() {
	n := vndParam("len")
	q := vndBytes("q", n)
	for _, c := range q {
		// '\f', newline and the two bytes of U+00A0 are other white space: no word separators
		vndAssume(vndOr(vndOr(vndOr(c == 'a', c == ' '), vndOr(vndOr(c == '\t', c == '\\'), vndOr(c == '"', c == ':'))),
			vndOr(vndOr(c == '\f', c == '\n'), vndOr(c == 0xc2, c == 0xa0))))
	}
	got := SplitWords(string(q))
	want := h19RefSplit(q)
	vndReach("h19:split")
	vndAssert(len(got) == len(want), "same-number-of-words")
	for i := 0; i < len(got) && i < len(want); i++ {
		vndAssert(got[i] == string(want[i]), "same-word")
	}
	vndObserveInt("nwords", len(got))
}

// h19Quote is the analysis front end's quoting of a label value
// (analysis/app/compare.go addToQuery), restated.
func h19Quote(add []byte) []byte {
	need := false
	for _, c := range add {
		if c == ' ' || c == '\t' || c == '\\' || c == '"' {
			need = true
		}
	}
	if !need {
		return add
	}
	out := []byte{'"'}
	for _, c := range add {
		if c == '\\' || c == '"' {
			out = append(out, '\\')
		}
		out = append(out, c)
	}
	return append(out, '"')
}

// H19QuoteRoundTrip: a quoted word is split back into exactly the word.
func H19QuoteRoundTrip() {
	n := vndParam("len")
	w := vndBytes("w", n)
	for _, c := range w {
		vndAssume(vndAnd(c != 0, c < 0x80))
	}
	text := append(h19Quote(w), " | rest:1"...)
	got := SplitWords(string(text))
	vndReach("h19:roundtrip")
	vndAssert(len(got) >= 1 && got[0] == string(w), "quoted-word-splits-back-to-the-original")
	vndAssert(len(got) == 3, "quoting-keeps-the-word-in-one-piece")
}

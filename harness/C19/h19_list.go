package db

// C19, the upload listing: "newest upload first and limited as requested". The SQL engines
// cannot be executed here; what can be decided is the shape of the statement ListUploads
// generates, for every query/limit/extra-label combination of a small family: a requested
// limit n appears exactly once as "LIMIT n", and at the parenthesis level where it appears
// the rows have been put newest-first before (an ORDER BY ... DESC over day and sequence
// precedes it at that level), so that the limit keeps the newest uploads; without a limit no
// such clause appears; the listing as a whole is ordered newest-first.

import (
	"database/sql"
	"errors"
	"strings"
)

func H19SQLQuery(d *sql.DB, query string, args []interface{}) (*sql.Rows, error) {
	return nil, errors.New("h19: the statement is inspected, not executed")
}

// h19Level returns the text of the parenthesis level that contains position pos, with
// nested parenthesised parts blanked out.
func h19Level(q string, pos int) (string, int) {
	// find the start of the enclosing level
	depth := 0
	start := 0
	for i := pos - 1; i >= 0; i-- {
		if q[i] == ')' {
			depth++
		} else if q[i] == '(' {
			if depth == 0 {
				start = i + 1
				break
			}
			depth--
		}
	}
	var sb strings.Builder
	depth = 0
	end := len(q)
	for i := start; i < len(q); i++ {
		c := q[i]
		if c == '(' {
			depth++
		} else if c == ')' {
			if depth == 0 {
				end = i
				break
			}
			depth--
			sb.WriteByte(' ')
			continue
		}
		if depth > 0 {
			sb.WriteByte(' ')
		} else {
			sb.WriteByte(c)
		}
	}
	_ = end
	return sb.String(), pos - start
}

func H19List() {
	queries := []string{"", "k:v", "k>a k<z", "k:v j:w", "upload:20260918.1 k>a"}
	q := queries[vndChoice("query", len(queries))]
	limit := []int{0, 7, 23}[vndChoice("limit", 3)]
	var extra []string
	if vndBool("extra") {
		extra = []string{"by", "upload-time"}
	}
	H20Reset()
	d := H20Open()
	if vndBool("mysql") {
		d.driverName = "mysql"
	} else {
		d.driverName = "sqlite3"
	}
	ul := d.ListUploads(q, extra, limit)
	vndReach("h19:list")
	text := ul.sqlQuery
	vndAssert(text != "", "listing-generates-a-statement")
	if text == "" {
		return
	}
	want := " LIMIT " + map[int]string{0: "", 7: "7", 23: "23"}[limit]
	if limit == 0 {
		// only the per-label lookups may carry a limit (of one row)
		vndAssert(strings.Count(text, " LIMIT ") == strings.Count(text, " LIMIT 1)"), "no-limit-clause-unless-requested")
	} else {
		vndAssert(strings.Count(text, want) == 1, "requested-limit-appears-exactly-once")
		pos := strings.Index(text, want)
		if pos >= 0 {
			level, rel := h19Level(text, pos)
			before := level[:rel]
			ob := strings.LastIndex(before, " ORDER BY ")
			vndAssert(ob >= 0, "limit-applies-to-rows-ordered-newest-first")
			if ob >= 0 {
				ord := before[ob:]
				vndAssert(strings.Contains(ord, "Day DESC") && strings.Contains(ord, "Seq DESC") && strings.Index(ord, "Day DESC") < strings.Index(ord, "Seq DESC"), "limit-applies-to-rows-ordered-newest-first")
			}
		}
	}
	// uploads without records are dropped before the limit is applied: where the statement
	// filters on the record count, it does so at the level of the limit, ahead of it
	if rc := strings.Index(text, "rCount > 0"); rc >= 0 && limit != 0 {
		pos := strings.Index(text, want)
		if pos >= 0 {
			level, rel := h19Level(text, pos)
			vndAssert(strings.Contains(level[:rel], "rCount > 0"), "uploads-without-records-are-dropped-before-the-limit")
		}
	}
	// the statement as a whole lists newest first: the last ORDER BY is by day, then sequence, descending
	ob := strings.LastIndex(text, " ORDER BY ")
	vndAssert(ob >= 0 && strings.Contains(text[ob:], "Day DESC") && strings.Contains(text[ob:], "Seq DESC"), "listing-is-ordered-newest-first")
	// one bound parameter per extra label and per query argument
	vndAssert(strings.Count(text, "?") == len(ul.sqlArgs), "one-argument-per-placeholder")
	vndObserveStr("sql", text)
}

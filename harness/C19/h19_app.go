package app

// C19: a label value quoted by the analysis front end's query builder is
// split back into exactly the original word.

import (
	"golang.org/x/perf/storage/query"
)

func H19AddToQuery() {
	n := vndParam("len")
	w := vndBytes("w", n)
	for _, c := range w {
		vndAssume(vndAnd(c != 0, c < 0x80))
	}
	q := addToQuery("rest:1", string(w))
	got := query.SplitWords(q)
	vndReach("h19:addtoquery")
	vndAssert(len(got) >= 1 && got[0] == string(w), "quoted-word-splits-back-to-the-original")
	vndAssert(len(got) == 3 && got[1] == "|" && got[2] == "rest:1", "rest-of-the-query-intact")
}

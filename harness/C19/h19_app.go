package app

// C19: a label value quoted by the analysis front end's query builder is
// split back into exactly the original word.

import (
	"golang.org/x/perf/storage/query"
)

func H19AddToQuery() {
	n := vndParam("len")
	w := vndBytes("w", n)
	for _, c := range w {
		vndAssume(vndAnd(c != 0, c < 0x80))
	}
	q := addToQuery("rest:1", string(w))
	got := query.SplitWords(q)
	vndReach("h19:addtoquery")
	vndAssert(len(got) >= 1 && got[0] == string(w), "quoted-word-splits-back-to-the-original")
	vndAssert(len(got) == 3 && got[1] == "|" && got[2] == "rest:1", "rest-of-the-query-intact")
	// the way the front end itself goes: the link it builds (label:value added to the
	// query) comes back as the user's query, is cut at the unquoted "|" and "vs" separators
	// by parseQueryString, and prefix and part are sent to the storage server as one query
	kv := "k:" + string(w)
	prefix, parts := parseQueryString(addToQuery("rest:1", kv))
	vndAssert(len(parts) == 1 && prefix != "", "separators-inside-a-quoted-value-do-not-cut-the-query")
	if len(parts) == 1 {
		words := query.SplitWords(prefix + " " + parts[0])
		vndAssert(len(words) == 2 && words[0] == kv && words[1] == "rest:1", "storage-query-has-the-original-words")
	}
}

package benchfmt

// C19: records pass through the server's printer and the client's reader
// with their labels and line intact, each exactly once.

import (
	"bytes"
)

func H19Legacy() {
	n := vndParam("results")
	keys := []string{"a", "b"}
	vals := make([][2]byte, n)
	var buf bytes.Buffer
	p := NewPrinter(&buf)
	var inputs []*Result
	for i := 0; i < n; i++ {
		labels := Labels{}
		for j := range keys {
			if vndBool("has") {
				c := vndByte("val")
				vndAssume(vndAnd(c > ' ', c < 0x7f))
				vals[i][j] = c
				labels[keys[j]] = string([]byte{c})
			}
		}
		content := "BenchmarkX" + string([]byte{'0' + byte(i)}) + " 1 " + string([]byte{'1' + byte(i)}) + " ns/op"
		r := &Result{Labels: labels, Content: content}
		inputs = append(inputs, r)
		if err := p.Print(r); err != nil {
			vndAssert(false, "print-no-error")
			return
		}
	}
	rd := NewReader(bytes.NewReader(buf.Bytes()))
	var got []*Result
	for rd.Next() {
		got = append(got, rd.Result())
	}
	vndAssert(rd.Err() == nil, "reader-no-error")
	vndReach("h19:legacy")
	vndAssert(len(got) == n, "each-record-exactly-once")
	if len(got) != n {
		return
	}
	for i := range got {
		vndAssert(got[i].Content == inputs[i].Content, "line-intact")
		for j, k := range keys {
			want := ""
			if vals[i][j] != 0 {
				want = string([]byte{vals[i][j]})
			}
			vndAssert(got[i].Labels[k] == want, "labels-intact")
		}
		vndAssert(len(got[i].Labels) <= len(keys), "no-foreign-labels")
		vndAssert(got[i].NameLabels["name"] == "X"+string([]byte{'0' + byte(i)}), "name-label-derived")
		if i > 0 {
			same := vndAnd(vals[i][0] == vals[i-1][0], vals[i][1] == vals[i-1][1])
			vndAssert(got[i].Labels.Equal(got[i-1].Labels) == same, "same-labels-iff-label-maps-equal")
		}
	}
	vndObserveBytes("out", buf.Bytes())
}

package stats

// C12 (partial): the parts of "distributions, t-tests and descriptive statistics" that are
// decided by comparisons, selection and formula structure. The numerical accuracy of the
// transcendental and iterative code (Lgamma, Erfc, the continued fraction, bisection, sums
// of many terms) has no encoding within reach and stays outside (DESIGN.md section 5).

import "math"

func h12Bounded(v float64) bool {
	return vndAnd(v == v, vndAnd(v <= 1e300, v >= -1e300))
}

// ---------------------------------------------------------------- t-tests

// h12Sum is a sample given by its summary statistics (the tests take any TTestSample).
type h12Sum struct{ n, mean, v float64 }

func (s h12Sum) Weight() float64   { return s.n }
func (s h12Sum) Mean() float64     { return s.mean }
func (s h12Sum) Variance() float64 { return s.v }

// The distribution function of the t distribution is an *arbitrary* function into [0,1] in
// the engine: the stub records where it was evaluated and returns an input value. Natively
// the real TDist.CDF is used on both sides.
var h12F struct {
	val   float64 // F at the recorded argument
	v, x  float64 // degrees of freedom and argument of the last evaluation
	calls int
}

func h12StubCDF(d TDist, x float64) float64 {
	h12F.calls++
	h12F.v, h12F.x = d.V, x
	return h12F.val
}

// h12CDF is F(x) for dof degrees of freedom as the harness sees it: natively the real
// function; in the engine the input value if the code evaluated F exactly there (once),
// otherwise a value no probability can equal.
func h12CDF(dof, x float64) float64 {
	if vndNative() {
		return TDist{dof}.CDF(x)
	}
	if h12F.calls == 1 && h12F.v == dof && h12F.x == x {
		return h12F.val
	}
	return -7
}

func h12Close(a, b float64) bool {
	return a == b || math.Abs(a-b) <= 1e-12*math.Max(math.Abs(a), math.Abs(b))
}

var h12Ns = []float64{2, 3, 8}
var h12Vs = []float64{0, 0.5, 4}
var h12Ms = []float64{1, -2.5}

// H12TTest: statistic, degrees of freedom and tail selection of the four t-tests on
// summary statistics chosen by the solver from short lists (sizes equal and unequal,
// variances zero and non-zero), for an arbitrary distribution function.
func H12TTest() {
	kind := vndParam("kind") // 0 Welch, 1 pooled, 2 one-sample, 3 paired
	alt := []LocationHypothesis{LocationLess, LocationDiffers, LocationGreater}[vndParam("alt")]
	n1, v1, m1 := h12Ns[vndChoice("n1", len(h12Ns))], h12Vs[vndChoice("v1", len(h12Vs))], h12Ms[vndChoice("m1", len(h12Ms))]
	n2, v2, m2, mu0 := 2.0, 0.0, 0.0, 0.0
	if kind <= 1 {
		n2, v2, m2 = h12Ns[vndChoice("n2", len(h12Ns))], h12Vs[vndChoice("v2", len(h12Vs))], h12Ms[vndChoice("m2", len(h12Ms))]
	} else {
		mu0 = []float64{0, 0.25}[vndChoice("mu0", 2)] // never equal to a mean: no cancellation in the numerator
	}
	fval := vndFloat64("F")
	vndAssume(vndAnd(fval >= 0, fval <= 1))

	// textbook statistic and degrees of freedom
	var t, dof float64
	var wantErr error
	var x1, x2 []float64
	switch kind {
	case 0:
		a, b := v1/n1, v2/n2
		t = (m1 - m2) / math.Sqrt(a+b)
		dof = (a + b) * (a + b) / (a*a/(n1-1) + b*b/(n2-1))
		if v1 == 0 && v2 == 0 {
			wantErr = ErrZeroVariance
		}
	case 1:
		dof = n1 + n2 - 2
		sp := ((n1-1)*v1 + (n2-1)*v2) / dof
		t = (m1 - m2) / math.Sqrt(sp*(1/n1+1/n2))
		if v1 == 0 && v2 == 0 {
			wantErr = ErrZeroVariance
		}
	case 2:
		dof = n1 - 1
		t = (m1 - mu0) * math.Sqrt(n1) / math.Sqrt(v1)
		if v1 == 0 {
			wantErr = ErrZeroVariance
		}
	case 3:
		// paired: n1 differences; the pairs are built so that the differences are
		// m1 +- d (mean m1), or all m1 when v1 is 0
		n := int(n1)
		d := math.Sqrt(v1)
		for i := 0; i < n; i++ {
			base := float64(10 * i)
			diff := m1
			if i%2 == 0 && i+1 < n {
				diff = m1 + d
			} else if i%2 == 1 {
				diff = m1 - d
			}
			x1 = append(x1, base+diff)
			x2 = append(x2, base)
		}
		diffs := make([]float64, n)
		sum := 0.0
		for i := range diffs {
			diffs[i] = x1[i] - x2[i]
			sum += diffs[i]
		}
		mean := sum / float64(n)
		ss := 0.0
		for _, x := range diffs {
			ss += (x - mean) * (x - mean)
		}
		sd := math.Sqrt(ss / float64(n-1))
		dof = n1 - 1
		t = (mean - mu0) * math.Sqrt(n1) / sd
		if ss == 0 {
			wantErr = ErrZeroVariance
		}
	}
	h12F.val, h12F.calls = fval, 0

	var r *TTestResult
	var err error
	switch kind {
	case 0:
		r, err = TwoSampleWelchTTest(h12Sum{n1, m1, v1}, h12Sum{n2, m2, v2}, alt)
	case 1:
		r, err = TwoSampleTTest(h12Sum{n1, m1, v1}, h12Sum{n2, m2, v2}, alt)
	case 2:
		r, err = OneSampleTTest(h12Sum{n1, m1, v1}, mu0, alt)
	case 3:
		r, err = PairedTTest(x1, x2, mu0, alt)
	}
	vndReach("h12:ttest")
	if wantErr != nil {
		vndReach("h12:zero-variance")
		vndAssert(err == wantErr && r == nil, "zero-variance-input-is-an-error")
		return
	}
	vndAssert(err == nil && r != nil, "valid-input-is-tested")
	if err != nil || r == nil {
		return
	}
	wantN2 := int(n2)
	if kind == 2 {
		wantN2 = 0
	} else if kind == 3 {
		wantN2 = int(n1)
	}
	vndAssert(r.N1 == int(n1) && r.N2 == wantN2 && r.AltHypothesis == alt, "result-reports-sizes-and-alternative")
	vndAssert(h12Close(r.T, t), "t-statistic-is-the-textbook-value")
	vndAssert(h12Close(r.DoF, dof), "degrees-of-freedom-are-the-textbook-value")
	if !h12Close(r.T, t) || !h12Close(r.DoF, dof) {
		return
	}
	// tails: F at the statistic the code computed
	var want float64
	switch alt {
	case LocationLess:
		want = h12CDF(r.DoF, r.T)
	case LocationGreater:
		want = 1 - h12CDF(r.DoF, r.T)
	default:
		want = 2 * (1 - h12CDF(r.DoF, math.Abs(r.T)))
	}
	vndAssert(r.P == want, "p-value-is-the-requested-tail-two-sided-twice-the-upper-tail-of-abs-t")
}

// H12TTestErrors: undersized and zero-variance inputs are errors, for arbitrary summary
// statistics (math.Pow, whose symbolic value is irrelevant here, and the distribution
// function are arbitrary functions in the engine).
func H12TTestErrors() {
	kind := vndParam("kind")
	n1, n2 := vndFloat64("n1"), vndFloat64("n2")
	v1, v2 := vndFloat64("v1"), vndFloat64("v2")
	m1, m2 := vndFloat64("m1"), vndFloat64("m2")
	for _, x := range []float64{n1, n2, v1, v2, m1, m2} {
		vndAssume(h12Bounded(x))
	}
	vndAssume(vndAnd(vndAnd(n1 >= 0, n2 >= 0), vndAnd(v1 >= 0, v2 >= 0)))
	h12F.val, h12F.calls = 0.25, 0
	h12Pow = vndFloat64("pow")
	var err error
	var r *TTestResult
	switch kind {
	case 0:
		r, err = TwoSampleWelchTTest(h12Sum{n1, m1, v1}, h12Sum{n2, m2, v2}, LocationDiffers)
		small := vndOr(n1 <= 1, n2 <= 1)
		if small {
			vndReach("h12:undersized")
			vndAssert(err == ErrSampleSize && r == nil, "undersized-input-is-an-error")
		} else if v1 == 0 && v2 == 0 {
			vndAssert(err == ErrZeroVariance && r == nil, "zero-variance-input-is-an-error")
		} else {
			vndAssert(err == nil && r != nil, "valid-input-is-tested")
		}
	case 1:
		r, err = TwoSampleTTest(h12Sum{n1, m1, v1}, h12Sum{n2, m2, v2}, LocationDiffers)
		if n1 == 0 || n2 == 0 {
			vndReach("h12:undersized")
			vndAssert(err == ErrSampleSize && r == nil, "undersized-input-is-an-error")
		} else if v1 == 0 && v2 == 0 {
			vndAssert(err == ErrZeroVariance && r == nil, "zero-variance-input-is-an-error")
		} else {
			vndAssert(err == nil && r != nil, "valid-input-is-tested")
		}
	case 2:
		r, err = OneSampleTTest(h12Sum{n1, m1, v1}, m2, LocationDiffers)
		if n1 == 0 {
			vndReach("h12:undersized")
			vndAssert(err == ErrSampleSize && r == nil, "undersized-input-is-an-error")
		} else if v1 == 0 {
			vndAssert(err == ErrZeroVariance && r == nil, "zero-variance-input-is-an-error")
		} else {
			vndAssert(err == nil && r != nil, "valid-input-is-tested")
		}
	}
	vndReach("h12:errors")
}

var h12Pow float64

func h12StubPow(x, y float64) float64 { return h12Pow }

// H12Paired: paired samples of different lengths or fewer than two pairs are errors; equal
// differences are a zero-variance error (arbitrary values).
func H12Paired() {
	n1, n2 := vndParam("n1"), vndParam("n2")
	x1, x2 := make([]float64, n1), make([]float64, n2)
	for i := range x1 {
		x1[i] = vndFloat64("x1")
		vndAssume(h12Bounded(x1[i]))
	}
	for i := range x2 {
		x2[i] = vndFloat64("x2")
		vndAssume(h12Bounded(x2[i]))
	}
	h12F.val, h12F.calls = 0.25, 0
	r, err := PairedTTest(x1, x2, 0, LocationDiffers)
	vndReach("h12:paired")
	switch {
	case n1 != n2:
		vndAssert(err == ErrMismatchedSamples && r == nil, "mismatched-pairs-are-an-error")
	case n1 <= 1:
		vndAssert(err == ErrSampleSize && r == nil, "undersized-input-is-an-error")
	}
}

// H12PairedConstant: n pairs whose differences are all the same arbitrary value c (second
// values 0, first values c) have zero variance: an error, not a number.
func H12PairedConstant() {
	n := vndParam("n")
	c := vndFloat64("c")
	vndAssume(h12Bounded(c))
	x1, x2 := make([]float64, n), make([]float64, n)
	for i := range x1 {
		x1[i] = c
	}
	h12F.val, h12F.calls = 0.25, 0
	r, err := PairedTTest(x1, x2, 0, LocationDiffers)
	vndReach("h12:paired-constant")
	vndAssert(err == ErrZeroVariance && r == nil, "zero-variance-input-is-an-error")
}

// ---------------------------------------------------------------- t distribution function

var h12Beta float64

func h12StubBetaInc(x, a, b float64) float64 { return h12Beta }

// H12TDist: with the regularized incomplete beta function an arbitrary function into [0,1]
// (its contract), the t distribution function lies in [0,1], is 1/2 at 0, reflects as
// F(-x) = 1 - F(x), is at least 1/2 for positive arguments, and is NaN only for NaN.
func H12TDist() {
	v := []float64{1, 2.5, 30, 1e5}[vndParam("v")]
	x := vndFloat64("x")
	h12Beta = vndFloat64("beta")
	vndAssume(vndAnd(h12Beta >= 0, h12Beta <= 1))
	d := TDist{v}
	f := d.CDF(x)
	vndReach("h12:tdist")
	if x != x {
		vndAssert(f != f, "nan-argument-gives-nan")
		return
	}
	vndAssert(f >= 0 && f <= 1, "distribution-function-in-unit-interval")
	g := d.CDF(-x)
	vndAssert(g == 1-f || f == 1-g, "distribution-function-reflects")
	if x == 0 {
		vndAssert(f == 0.5, "distribution-function-is-one-half-at-zero")
	}
	if x > 0 {
		vndAssert(f >= 0.5, "distribution-function-at-least-one-half-right-of-zero")
	}
	if x < 0 {
		vndAssert(f <= 0.5, "distribution-function-at-most-one-half-left-of-zero")
	}
}

// ---------------------------------------------------------------- descriptive statistics

// H12Bounds: minimum and maximum of an arbitrary sample, sorted or not.
func H12Bounds() {
	n := vndParam("n")
	xs := make([]float64, n)
	for i := range xs {
		xs[i] = vndFloat64("x")
		vndAssume(h12Bounded(xs[i]))
	}
	lo, hi := Bounds(xs)
	vndReach("h12:bounds")
	inLo, inHi := false, false
	for _, x := range xs {
		vndAssert(lo <= x && x <= hi, "bounds-enclose-every-value")
		inLo = vndOr(inLo, x == lo)
		inHi = vndOr(inHi, x == hi)
	}
	vndAssert(inLo && inHi, "bounds-are-values-of-the-sample")
	lo2, hi2 := Sample{Xs: xs}.Bounds()
	vndAssert(lo2 == lo && hi2 == hi, "sample-bounds-agree")
	s := Sample{Xs: append([]float64(nil), xs...)}
	s.Sort()
	lo3, hi3 := s.Bounds()
	vndAssert(s.Sorted && lo3 == lo && hi3 == hi, "sorted-sample-bounds-agree")
	if n == 1 {
		vndAssert(Mean(xs) == xs[0] || (xs[0] == 0 && Mean(xs) == 0), "mean-of-one-value")
	}
}

// H12Percentile: the R8 percentile of an arbitrary sample of n values (unsorted; the
// function sorts a copy) at a concrete p: it is the interpolation between the order
// statistics the definition names (h = 1/3 + p(N + 1/3), clamped), it lies between the
// sample's minimum and maximum, and the input is left untouched.
func H12Percentile() {
	n := vndParam("n")
	p := []float64{0, 0.01, 0.1, 0.25, 1.0 / 3, 0.5, 0.75, 0.9, 0.99, 1, -0.5, 1.5}[vndParam("p")]
	xs := make([]float64, n)
	for i := range xs {
		xs[i] = vndFloat64("x")
		vndAssume(h12Bounded(xs[i]))
	}
	orig := append([]float64(nil), xs...)
	got := Sample{Xs: xs}.Percentile(p)
	vndReach("h12:percentile")
	for i := range xs {
		vndAssert(xs[i] == orig[i] || (xs[i] != xs[i] && orig[i] != orig[i]), "percentile-leaves-the-sample-untouched")
	}
	// order statistics along this path
	sorted := append([]float64(nil), orig...)
	for i := 1; i < n; i++ {
		for j := i; j > 0 && sorted[j] < sorted[j-1]; j-- {
			sorted[j], sorted[j-1] = sorted[j-1], sorted[j]
		}
	}
	lo, hi := sorted[0], sorted[n-1]
	inside := vndParam("inside") == 1 // the interpolated case is a float query of the expensive kind
	var want float64
	switch {
	case p <= 0:
		want = lo
	case p >= 1:
		want = hi
	default:
		h := 1/3.0 + p*(float64(n)+1/3.0)
		k := int(math.Floor(h))
		frac := h - math.Floor(h)
		switch {
		case k <= 0:
			want = lo
		case k >= n:
			want = hi
		default:
			want = sorted[k-1] + frac*(sorted[k]-sorted[k-1])
		}
	}
	if inside || want == lo || want == hi {
		vndAssert(got >= lo && got <= hi, "percentile-between-minimum-and-maximum")
	}
	vndAssert(got == want, "percentile-is-the-r8-interpolation-of-the-order-statistics")
	// the same on a sample marked sorted
	s := Sample{Xs: sorted, Sorted: true}
	vndAssert(s.Percentile(p) == got, "percentile-of-the-sorted-sample-agrees")
}

// H12IQR: the interquartile range is the difference of the two quartiles and not negative.
func H12IQR() {
	n := vndParam("n")
	xs := make([]float64, n)
	for i := range xs {
		xs[i] = vndFloat64("x")
		vndAssume(h12Bounded(xs[i]))
		if i > 0 {
			vndAssume(xs[i-1] <= xs[i])
		}
	}
	s := Sample{Xs: xs, Sorted: true}
	iqr := s.IQR()
	vndReach("h12:iqr")
	vndAssert(iqr == s.Percentile(0.75)-s.Percentile(0.25), "iqr-is-the-difference-of-the-quartiles")
}

// ---------------------------------------------------------------- families of concrete inputs
//
// The remaining harnesses have no symbolic floats in the code under test: the solver only
// chooses a member of a finite family (sizes, magnitudes, arrangements) and that member is
// executed concretely by the engine; the reference is an independently arranged evaluation.
// They are case splits, not proofs over a value range, and are listed as such in the bounds.

// h12Uniform is the uniform distribution on [lo, hi] (a distribution without an InvCDF
// method of its own, so that the generic inverse is used).
type h12Uniform struct{ lo, hi float64 }

func (u h12Uniform) CDF(x float64) float64 {
	switch {
	case x <= u.lo:
		return 0
	case x >= u.hi:
		return 1
	}
	return (x - u.lo) / (u.hi - u.lo)
}
func (u h12Uniform) PDF(x float64) float64 {
	if x < u.lo || x > u.hi {
		return 0
	}
	return 1 / (u.hi - u.lo)
}
func (u h12Uniform) Bounds() (float64, float64) { return u.lo, u.hi }

var h12Probs = []float64{0.5, 0.001, 0.025, 0.25, 0.375, 0.9, 0.975, 0.999999}

// H12Inverse: the generic inverse distribution function inverts the distribution function,
// is monotone, handles 0, 1 and arguments outside [0,1], and a closure gives the same
// answers however often it was used before (1100 calls on one closure).
func H12Inverse() {
	which := vndParam("dist")
	var d DistCommon
	switch which {
	case 0:
		d = h12Uniform{-3, 5}
	case 1:
		d = h12Uniform{-4, 4} // CDF(0) is exactly 1/2
	case 2:
		d = TDist{1}
	case 3:
		d = TDist{2.5}
	default:
		d = TDist{30}
	}
	inv := InvCDF(d)
	k := vndChoice("p", len(h12Probs))
	y := h12Probs[k]
	x := inv(y)
	vndReach("h12:inverse")
	vndAssert(x == x && !math.IsInf(x, 0), "inverse-is-finite-inside-the-unit-interval")
	vndAssert(math.Abs(d.CDF(x)-y) <= 1e-9, "inverse-inverts-the-distribution-function")
	if k+1 < len(h12Probs) && k > 0 {
		// the list is ascending from index 1 on
		vndAssert(x <= inv(h12Probs[k+1]), "inverse-is-monotone")
	}
	vndAssert(inv(-0.5) != inv(-0.5) && inv(1.5) != inv(1.5), "inverse-outside-the-unit-interval-is-nan")
	lo, hi := inv(0), inv(1)
	if which <= 1 {
		l, h := d.Bounds()
		vndAssert(lo == l && hi == h, "inverse-at-0-and-1-is-the-support")
	} else {
		vndAssert(math.IsInf(lo, -1) && math.IsInf(hi, 1), "inverse-at-0-and-1-is-infinite-for-unbounded-support")
	}
	if vndParam("history") == 1 {
		// the same closure, used many times, against a fresh one
		for n := 0; n < 1100; n++ {
			inv(h12Probs[n%len(h12Probs)])
		}
		vndReach("h12:inverse-history")
		vndAssert(inv(y) == x, "inverse-independent-of-earlier-calls")
		vndAssert(InvCDF(d)(y) == x, "inverse-independent-of-earlier-calls")
	}
	vndObserveF64("x", x)
}

// h12Family builds a long sample: n values around magnitude mag in arrangement arr.
func h12Family(n int, mag float64, arr int) []float64 {
	xs := make([]float64, n)
	for i := range xs {
		f := 1 + float64(i%7)/8 // 1, 1.125, ... 1.75
		switch arr {
		case 0: // all near mag
			xs[i] = mag * f
		case 1: // alternating mag and 1/mag
			if i%2 == 0 {
				xs[i] = mag * f
			} else {
				xs[i] = f / mag
			}
		default: // first half large, second half small
			if i < n/2 {
				xs[i] = mag * f
			} else {
				xs[i] = f / mag
			}
		}
	}
	return xs
}

// H12Long: mean, variance, geometric mean and bounds of samples of up to 300 positive
// values of widely varying magnitude against an independently arranged evaluation (scaled
// two-pass sums; the geometric mean through binary exponents and mantissas).
func H12Long() {
	n := []int{1, 2, 3, 60, 200, 300}[vndChoice("n", 6)]
	mag := []float64{3, 1e6, 1.0 / 2048, 1e150}[vndChoice("mag", 4)]
	arr := vndChoice("arr", 3)
	xs := h12Family(n, mag, arr)
	vndReach("h12:long")
	// reference mean: scaled sum
	scale := 0.0
	for _, x := range xs {
		scale = math.Max(scale, math.Abs(x))
	}
	sum, comp := 0.0, 0.0
	for _, x := range xs {
		y := x/scale - comp
		t := sum + y
		comp = (t - sum) - y
		sum = t
	}
	mean := sum / float64(n) * scale
	vndAssert(math.Abs(Mean(xs)-mean) <= 1e-12*scale, "mean-agrees-with-the-definition")
	lo, hi := Bounds(xs)
	vndAssert(Mean(xs) >= lo && Mean(xs) <= hi, "mean-between-minimum-and-maximum")
	// reference variance: two-pass on scaled values
	if n > 1 {
		ss := 0.0
		for _, x := range xs {
			d := x/scale - mean/scale
			ss += d * d
		}
		v := ss / float64(n-1) * scale * scale
		got := Variance(xs)
		if !math.IsInf(v, 0) {
			vndAssert(math.Abs(got-v) <= 1e-9*math.Max(v, 1e-300), "variance-agrees-with-the-definition")
			vndAssert(got >= 0, "variance-not-negative")
			vndAssert(math.Abs(StdDev(xs)-math.Sqrt(v)) <= 1e-9*math.Sqrt(v)+1e-300, "standard-deviation-is-the-root-of-the-variance")
		}
	} else {
		vndAssert(Variance(xs) == 0, "variance-of-one-value-is-zero")
	}
	// reference geometric mean: exponents and mantissas separately
	esum, lsum := 0, 0.0
	for _, x := range xs {
		m, e := math.Frexp(x)
		esum += e
		lsum += math.Log2(m)
	}
	g := math.Exp2((float64(esum) + lsum) / float64(n))
	got := GeoMean(xs)
	vndAssert(math.Abs(got-g) <= 1e-9*g, "geometric-mean-agrees-with-the-definition")
	vndAssert(got >= lo*(1-1e-12) && got <= hi*(1+1e-12), "geometric-mean-between-minimum-and-maximum")
	vndAssert(GeoMean(append([]float64{-1}, xs...)) != GeoMean(append([]float64{-1}, xs...)), "geometric-mean-of-a-non-positive-value-is-nan")
	vndObserveF64("gm", got)
}

// H12Density: the t density on a solver-chosen member of a family of degrees of freedom
// (1 ... 1e5) and arguments: finite, positive, even, decreasing away from 0, and in
// agreement with the distribution function (Simpson's rule over [a, a+1/4] against the
// difference of CDF values, 1e-6). Concrete executions.
func H12Density() {
	v := []float64{1, 2.5, 7, 30, 171, 343, 1000, 1e5}[vndChoice("v", 8)]
	a := []float64{0, 0.25, 1, 3}[vndChoice("a", 4)]
	d := TDist{v}
	p0, p1 := d.PDF(a), d.PDF(a+0.25)
	vndReach("h12:density")
	vndAssert(p0 > 0 && !math.IsInf(p0, 0) && p0 == p0, "density-is-positive-and-finite")
	vndAssert(d.PDF(-a) == p0, "density-is-even")
	vndAssert(p1 <= p0, "density-decreases-away-from-zero")
	n := 16
	h := 0.25 / float64(n)
	sum := d.PDF(a) + d.PDF(a+0.25)
	for i := 1; i < n; i++ {
		w := 2.0
		if i%2 == 1 {
			w = 4
		}
		sum += w * d.PDF(a+float64(i)*h)
	}
	integral := sum * h / 3
	vndAssert(math.Abs(integral-(d.CDF(a+0.25)-d.CDF(a))) <= 1e-6, "distribution-function-agrees-with-the-integral-of-the-density")
	sd := NormalDist{Mu: 0, Sigma: 1}
	vndAssert(math.Abs(sd.CDF(a)+sd.CDF(-a)-1) <= 1e-12 && sd.CDF(a) >= 0.5 && sd.CDF(a) <= 1, "normal-distribution-function-reflects")
	vndAssert(math.Abs(sd.CDF(sd.InvCDF(0.025+a/8))-(0.025+a/8)) <= 1e-9, "normal-inverse-inverts")
}

// H12NormalInverse: the normal distribution's own inverse (a rational approximation in three
// regions) inverts its distribution function for shifted and scaled distributions too, in
// the lower, central and upper region; monotone; symmetric about the mean.
func H12NormalInverse() {
	d := []NormalDist{{0, 1}, {2, 5}, {-3, 0.5}, {1e6, 1}}[vndChoice("dist", 4)]
	probs := []float64{1e-12, 1e-5, 0.001, 0.02, 0.02425, 0.03, 0.25, 0.5, 0.75, 0.97, 0.97575, 0.98, 0.999, 1 - 1e-5, 1 - 1e-12}
	k := vndChoice("p", len(probs))
	p := probs[k]
	x := d.InvCDF(p)
	vndReach("h12:normal-inverse")
	vndAssert(x == x && !math.IsInf(x, 0), "inverse-is-finite-inside-the-unit-interval")
	// Acklam's approximation has a relative error of 1.15e-9 in x
	vndAssert(math.Abs(d.CDF(x)-p) <= 1e-8*math.Max(p, 1e-3) || math.Abs(d.CDF(x)-p) <= 2e-9, "inverse-inverts-the-distribution-function")
	if k+1 < len(probs) {
		vndAssert(x <= d.InvCDF(probs[k+1]), "inverse-is-monotone")
	}
	// symmetry about the mean: the quantiles of p and 1-p are mirror images (p and 1-p both exact here only for some p)
	if p == 0.25 || p == 0.5 || p == 0.75 {
		vndAssert(math.Abs((x-d.Mu)+(d.InvCDF(1-p)-d.Mu)) <= 1e-8*d.Sigma, "inverse-is-symmetric-about-the-mean")
	}
	vndAssert(math.IsInf(d.InvCDF(0), -1) && math.IsInf(d.InvCDF(1), 1), "inverse-at-0-and-1-is-infinite-for-unbounded-support")
	nanv := d.InvCDF(-0.5)
	vndAssert(nanv != nanv, "inverse-outside-the-unit-interval-is-nan")
}

package main

// C16, text vs CSV: the real benchstat() entry point renders the same two input files (symbolic
// configuration values and sub-names, see h14_main.go) as text and as CSV; both must describe
// the same tables (unit and label lines), the same row labels per table, the same deltas and
// test details per row, the same warning messages, and every scaled number of the text must
// be the CSV number to the printed precision.

import (
	"bytes"
	"math"
	"strconv"
	"strings"
)

type h16Row struct {
	label  string
	nums   []float64 // centres in column order
	deltas []string  // "~", "+1.00%", ...
	tests  []string  // "p=0.667 n=1+2"
}

type h16Table struct {
	labels []string // "a: x" lines above the table
	unit   string
	rows   []h16Row
	warns  []string // distinct messages
	geo    *h16Row  // the summary row, if rendered
	heads  []string // text: the header lines; CSV: the column label values
}

func h16AddWarn(t *h16Table, msg string) {
	for _, w := range t.warns {
		if w == msg {
			return
		}
	}
	t.warns = append(t.warns, msg)
}

var h16Prefix = map[string]float64{"": 1, "n": 1e-9, "µ": 1e-6, "m": 1e-3, "k": 1e3, "M": 1e6, "G": 1e9, "Ki": 1024, "Mi": 1024 * 1024}

// h16ParseScaled parses a scaled number such as "11.00n" and returns the value and the
// absolute tolerance of its last printed digit.
func h16ParseScaled(s string) (float64, float64, bool) {
	k := len(s)
	for k > 0 && !(s[k-1] >= '0' && s[k-1] <= '9') {
		k--
	}
	f, ok := h16Prefix[s[k:]]
	if !ok || k == 0 {
		return 0, 0, false
	}
	v, err := strconv.ParseFloat(s[:k], 64)
	if err != nil {
		return 0, 0, false
	}
	digits := 0
	if dot := strings.IndexByte(s[:k], '.'); dot >= 0 {
		digits = k - dot - 1
	}
	return v * f, 0.5000001 * math.Pow(10, -float64(digits)) * f, true
}

func h16IsSuperscript(f string) bool {
	for _, r := range f {
		switch r {
		case '¹', '²', '³', '⁴', '⁵', '⁶', '⁷', '⁸', '⁹', '⁰':
		default:
			return false
		}
	}
	return f != ""
}

func h16ParseText(out string) ([]h16Table, bool) {
	var tables []h16Table
	var cur *h16Table
	inBody := false
	labelWidth := 0
	for _, line := range strings.Split(out, "\n") {
		switch {
		case line == "":
			cur, inBody = nil, false
			continue
		case cur == nil:
			tables = append(tables, h16Table{})
			cur = &tables[len(tables)-1]
		}
		fields := strings.Fields(line)
		if strings.Contains(line, "│") {
			// header lines; the last one carries the unit; the label column ends at the first rule
			labelWidth = len([]rune(line[:strings.Index(line, "│")]))
			cur.heads = append(cur.heads, line)
			for _, f := range fields {
				if strings.Contains(f, "/op") || f == "sec/op" || f == "B/op" {
					cur.unit = f
				}
			}
			inBody = true
			continue
		}
		if !inBody {
			cur.labels = append(cur.labels, line)
			continue
		}
		if h16IsSuperscript(fields[0]) {
			h16AddWarn(cur, strings.TrimSpace(strings.TrimPrefix(strings.TrimSpace(line), fields[0])))
			continue
		}
		// the row label (it may contain blanks) occupies the label column
		runes := []rune(line)
		lw := labelWidth
		if lw > len(runes) {
			lw = len(runes)
		}
		label := strings.TrimSpace(string(runes[:lw]))
		fields = append([]string{label}, strings.Fields(string(runes[lw:]))...)
		row := h16Row{label: fields[0]}
		for i := 1; i < len(fields); i++ {
			f := fields[i]
			switch {
			case f == "±" || f == "∞" || h16IsSuperscript(f) || strings.HasSuffix(f, "%") && i > 0 && fields[i-1] == "±":
			case f == "~" || (strings.HasSuffix(f, "%") && (f[0] == '+' || f[0] == '-')):
				row.deltas = append(row.deltas, f)
			case strings.HasPrefix(f, "(p="):
				test := strings.TrimPrefix(f, "(")
				if i+1 < len(fields) && strings.HasPrefix(fields[i+1], "n=") {
					test += " " + strings.TrimSuffix(fields[i+1], ")")
					i++
				}
				row.tests = append(row.tests, strings.TrimSuffix(test, ")"))
			case f == "?":
				row.deltas = append(row.deltas, f)
			default:
				v, _, ok := h16ParseScaled(f)
				if !ok {
					return nil, false
				}
				row.nums = append(row.nums, v)
			}
		}
		if row.label != "geomean" {
			cur.rows = append(cur.rows, row)
		} else {
			r := row
			cur.geo = &r
		}
	}
	return tables, true
}

func h16ParseCSV(out, warn string) ([]h16Table, bool) {
	var tables []h16Table
	var cur *h16Table
	var header []string
	lineTable := map[int]int{}
	lines := strings.Split(out, "\n")
	for ln, line := range lines {
		if line == "" {
			cur, header = nil, nil
			continue
		}
		if cur == nil {
			tables = append(tables, h16Table{})
			cur = &tables[len(tables)-1]
		}
		lineTable[ln+1] = len(tables) - 1
		f := strings.Split(line, ",")
		if len(f) == 1 {
			cur.labels = append(cur.labels, line)
			continue
		}
		isHeader := false
		for _, x := range f {
			if x == "CI" {
				isHeader = true
			}
		}
		if isHeader {
			header = f
			cur.unit = f[1]
			continue
		}
		if header == nil {
			for _, x := range f[1:] { // column label rows
				if x != "" {
					cur.heads = append(cur.heads, x)
				}
			}
			continue
		}
		row := h16Row{label: f[0]}
		for j := 1; j < len(f) && j < len(header); j++ {
			if f[j] == "" {
				continue
			}
			switch header[j] {
			case "CI":
			case "vs base":
				row.deltas = append(row.deltas, f[j])
			case "P":
				row.tests = append(row.tests, f[j])
			default:
				v, err := strconv.ParseFloat(f[j], 64)
				if err != nil {
					return nil, false
				}
				row.nums = append(row.nums, v)
			}
		}
		if row.label != "geomean" {
			cur.rows = append(cur.rows, row)
		} else {
			r := row
			cur.geo = &r
		}
	}
	for _, wl := range strings.Split(warn, "\n") {
		if wl == "" {
			continue
		}
		colon := strings.Index(wl, ": ")
		if colon < 0 {
			return nil, false
		}
		k := 0
		for k < colon && wl[k] >= 'A' && wl[k] <= 'Z' {
			k++
		}
		ln, err := strconv.Atoi(wl[k:colon])
		if err != nil {
			return nil, false
		}
		ti, ok := lineTable[ln]
		if !ok {
			return nil, false
		}
		h16AddWarn(&tables[ti], wl[colon+2:])
	}
	return tables, true
}

func H16TextCSV() {
	fs := h14FlagSets[vndParam("flags")]
	c1, _, _, _, _ := h14Input("1", "1")
	c2, _, _, _, _ := h14Input("2", "2")
	vndFile("f1.txt", c1)
	vndFile("f2.txt", c2)
	paths := []string{"f1.txt", "f2.txt"}
	var text, textErr, csvOut, csvErr bytes.Buffer
	err1 := benchstat(&text, &textErr, append(append([]string{}, fs.args...), paths...))
	err2 := benchstat(&csvOut, &csvErr, append(append([]string{"-format", "csv"}, fs.args...), paths...))
	vndReach("h16:textcsv")
	vndAssert(err1 == nil && err2 == nil, "both-renderings-succeed")
	if err1 != nil || err2 != nil {
		return
	}
	for _, line := range strings.Split(text.String(), "\n") {
		vndAssert(!strings.HasSuffix(line, " "), "no-line-ends-in-blanks")
	}
	tt, ok1 := h16ParseText(text.String())
	ct, ok2 := h16ParseCSV(csvOut.String(), csvErr.String())
	vndAssert(ok1 && ok2, "renderings-are-parseable")
	if !ok1 || !ok2 {
		return
	}
	vndAssert(len(tt) == len(ct), "same-number-of-tables")
	if len(tt) != len(ct) {
		return
	}
	for i := range tt {
		a, b := tt[i], ct[i]
		vndAssert(a.unit == b.unit, "same-unit-per-table")
		vndAssert(strings.Join(a.labels, "|") == strings.Join(b.labels, "|"), "same-table-labels")
		// every column label of the CSV heads a column of the text table, once per occurrence
		for _, lab := range b.heads {
			nText, nCSV := 0, 0
			for _, hl := range a.heads {
				nText += strings.Count(hl, " "+lab+" ")
			}
			for _, x := range b.heads {
				if x == lab {
					nCSV++
				}
			}
			vndAssert(nText >= 1, "every-csv-column-label-heads-a-text-column")
			_ = nCSV
		}
		vndAssert(len(a.rows) == len(b.rows), "same-rows-per-table")
		if len(a.rows) != len(b.rows) {
			continue
		}
		for r := range a.rows {
			ra, rb := a.rows[r], b.rows[r]
			vndAssert(ra.label == rb.label, "same-row-labels")
			vndAssert(strings.Join(ra.deltas, " ") == strings.Join(rb.deltas, " "), "same-deltas")
			vndAssert(strings.Join(ra.tests, "|") == strings.Join(rb.tests, "|"), "same-test-details")
			vndAssert(len(ra.nums) == len(rb.nums), "same-number-of-cells-per-row")
			for k := 0; k < len(ra.nums) && k < len(rb.nums); k++ {
				// re-derive the tolerance from the text field is not possible here (parsed away):
				// four significant digits => relative 5e-4 is the printed precision
				vndAssert(math.Abs(ra.nums[k]-rb.nums[k]) <= 5.0001e-4*math.Abs(rb.nums[k]), "text-number-is-the-csv-number-to-the-printed-precision")
			}
		}
		// the summary row: the text omits it for a one-row table; where it is shown it agrees with the CSV
		if a.geo != nil {
			vndReach("h16:textcsv-geomean")
			vndAssert(b.geo != nil, "summary-row-in-text-also-in-csv")
			if b.geo != nil {
				vndAssert(strings.Join(a.geo.deltas, " ") == strings.Join(b.geo.deltas, " "), "same-summary-deltas")
				vndAssert(len(a.geo.nums) == len(b.geo.nums), "same-number-of-summary-cells")
				for k := 0; k < len(a.geo.nums) && k < len(b.geo.nums); k++ {
					vndAssert(math.Abs(a.geo.nums[k]-b.geo.nums[k]) <= 5.0001e-4*math.Abs(b.geo.nums[k]), "text-number-is-the-csv-number-to-the-printed-precision")
				}
			}
		}
		wa, wb := append([]string(nil), a.warns...), append([]string(nil), b.warns...)
		for _, w := range wa {
			found := false
			for _, x := range wb {
				found = found || x == w
			}
			vndAssert(found, "text-warning-also-in-csv")
		}
		for _, w := range wb {
			found := false
			for _, x := range wa {
				found = found || x == w
			}
			vndAssert(found, "csv-warning-also-in-text")
		}
	}
	vndObserveStr("text", text.String())
}

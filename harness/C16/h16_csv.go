package benchtab

// C16 (CSV part): in the CSV rendering every field sits under the header of
// its kind: centres under the unit, ranges under "CI", deltas under
// "vs base", test details under "P" — also in the summary row and also when a
// column has no geomean.

import (
	"strings"
)

func h16Fields(line string) []string { return strings.Split(line, ",") }

func H16CSV() {
	n := vndParam("results")
	dims := vndParam("dims")
	zero := vndParam("zero") // index of the result whose values are zero (or -1)
	s := h14Make(0, 0)
	rs := make([]h14Res, n)
	order := make([]int, n)
	for i := range rs {
		rs[i] = h14Symbolic(i, dims)
		order[i] = i
	}
	saved := append([]float64(nil), h14Vals...)
	if zero >= 0 {
		h14Vals[2*zero], h14Vals[2*zero+1] = 0, 0
	}
	csvText := h14CSV(h14Run(s, rs, order))
	copy(h14Vals, saved)
	vndReach("h16:csv")
	var header []string
	for _, line := range strings.Split(csvText, "\n") {
		if line == "--warnings--" {
			break
		}
		f := h16Fields(line)
		isHeader := false
		for _, x := range f {
			if x == "CI" {
				isHeader = true
			}
		}
		if isHeader {
			header = f
			continue
		}
		if header == nil || len(f) < 2 || line == "" {
			continue
		}
		if len(f) == 1 {
			header = nil // a table label line ends the table
			continue
		}
		summary := f[0] == "geomean"
		for j := 1; j < len(f); j++ {
			x := f[j]
			if x == "" {
				continue
			}
			vndAssert(j < len(header), "no-field-beyond-the-header")
			if j >= len(header) {
				continue
			}
			h := header[j]
			isDelta := x == "~" || (strings.HasSuffix(x, "%") && (x[0] == '+' || x[0] == '-')) || (summary && x == "?")
			isP := strings.HasPrefix(x, "p=") || strings.HasPrefix(x, "n=")
			switch {
			case isP:
				vndAssert(h == "P", "test-details-under-P")
			case isDelta:
				vndReach("h16:csv-delta")
				vndAssert(h == "vs base", "deltas-under-vs-base")
			case h == "vs base" || h == "P":
				vndAssert(false, "only-deltas-and-test-details-under-their-headers")
			}
			if summary {
				vndAssert(h != "CI" && h != "P", "summary-row-has-no-interval-or-test-fields")
			}
		}
	}
	// every warning names the cell it is about: "<column letters><line>: message" points at a
	// non-empty field of a data row (centre under a unit header, or a delta under "vs base")
	parts := strings.SplitN(csvText, "\n--warnings--\n", 2)
	lines := strings.Split(parts[0], "\n")
	if len(parts) == 2 {
		for _, wl := range strings.Split(parts[1], "\n") {
			if wl == "" {
				continue
			}
			colon := strings.Index(wl, ":")
			if colon < 2 {
				vndAssert(false, "warning-has-a-cell-reference")
				continue
			}
			ref := wl[:colon]
			k := 0
			col := 0
			for k < len(ref) && ref[k] >= 'A' && ref[k] <= 'Z' {
				col = col*26 + int(ref[k]-'A')
				k++
			}
			ln := 0
			for _, c := range []byte(ref[k:]) {
				ln = ln*10 + int(c-'0')
			}
			vndAssert(k >= 1 && k < len(ref) && ln >= 1 && ln <= len(lines), "warning-has-a-cell-reference")
			if k < 1 || ln < 1 || ln > len(lines) {
				continue
			}
			f := h16Fields(lines[ln-1])
			if f[0] == "geomean" {
				continue // a column without a summary has an empty field there
			}
			vndReach("h16:csv-warning")
			vndAssert(col < len(f) && f[col] != "", "warning-refers-to-the-cell-it-is-about")
			if col < len(f) && strings.Contains(wl, "for confidence interval") {
				// a sample-size warning is about a centre: the field is that measurement's number
				isNum := f[col] != "" && (f[col][0] >= '0' && f[col][0] <= '9')
				vndAssert(isNum, "warning-refers-to-the-cell-it-is-about")
			}
		}
	}
}

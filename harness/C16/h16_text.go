package texttab

// C16 (text layout part): the fixed-width rendering never truncates or
// overlaps cell contents, logical columns start (left aligned) or end (right
// aligned) at one character offset on every line, a header cell stays within
// the columns it spans, no line ends in blanks.

import (
	"bytes"
)

// h16Cell makes a cell value: a unique marker letter followed by nothing, two
// ASCII letters, or a two-byte rune and a letter (so byte length != character
// count). Returns the value and its length in characters.
func h16Cell(marker byte) (string, int) {
	switch vndChoice("body", 4) {
	case 3:
		c1, c2 := vndByte("cont"), vndByte("cont")
		vndAssume(vndAnd(vndAnd(c1 >= 0x80, c1 <= 0xbf), vndAnd(c2 >= 0x80, c2 <= 0xbf)))
		return string([]byte{marker, 0xc3, c1, 0xc3, c2}), 3
	case 0:
		return string([]byte{marker}), 1
	case 1:
		c := vndByte("c")
		vndAssume(vndAnd(c >= 'a', c <= 'z'))
		return string([]byte{marker, c, 'q'}), 3
	}
	c := vndByte("cont")
	vndAssume(vndAnd(c >= 0x80, c <= 0xbf))
	return string([]byte{marker, 0xc3, c, 'q'}), 3
}

type h16Pos struct {
	line, start, end int // character offsets, end exclusive
	found            bool
}

// h16Locate finds the cell that starts with marker and has n characters.
func h16Locate(lines [][]byte, marker byte, n int) h16Pos {
	for li, ln := range lines {
		col := 0
		for i := 0; i < len(ln); i++ {
			b := ln[i]
			if b >= 0x80 && b <= 0xbf {
				continue // continuation byte: same character
			}
			if b == marker {
				return h16Pos{li, col, col + n, true}
			}
			col++
		}
	}
	return h16Pos{}
}

func h16Lines(out []byte) [][]byte {
	var lines [][]byte
	start := 0
	for i, b := range out {
		if b == '\n' {
			lines = append(lines, out[start:i])
			start = i + 1
		}
	}
	if start < len(out) {
		lines = append(lines, out[start:])
	}
	return lines
}

func H16Text() {
	shape := vndParam("shape")
	var t Table
	type cell struct {
		marker       byte
		row, col     int
		span         int
		right, centr bool
		n            int
	}
	var cells []cell
	add := func(marker byte, row, col, span int, right, center bool) {
		v, n := h16Cell(marker)
		var opts []CellOption
		if right {
			opts = append(opts, Right)
		}
		if center {
			opts = append(opts, Center)
		}
		t.Col(col)
		t.Span(span, v, opts...)
		cells = append(cells, cell{marker, row, col, span, right, center, n})
	}
	addFixed := func(marker byte, row, col int) {
		t.Col(col)
		t.Span(1, string([]byte{marker}))
		cells = append(cells, cell{marker, row, col, 1, false, false, 1})
	}
	switch shape {
	case 0: // header spanning both columns
		t.Row()
		add('H', 0, 0, 2, false, true)
		t.Row()
		add('A', 1, 0, 1, false, false)
		add('B', 1, 1, 1, true, false)
		t.Row()
		add('C', 2, 0, 1, false, false)
		add('D', 2, 1, 1, true, false)
		// a last cell that is empty or holds only blanks prints nothing
		t.Cell([]string{"", " ", "   "}[vndChoice("blankcell", 3)])
	case 1: // label column plus a header over the two value columns
		t.Row()
		t.Cell("")
		add('H', 0, 1, 2, false, true)
		t.Row()
		add('A', 1, 0, 1, false, false)
		add('B', 1, 1, 1, true, false)
		add('C', 1, 2, 1, true, false)
		t.Row()
		add('D', 2, 0, 1, false, false)
		t.Col(2)
		cells = append(cells, cell{}) // placeholder keeps indices simple
		cells = cells[:len(cells)-1]
		add('E', 2, 2, 1, true, false)
	case 2: // a rule column: an empty cell that carries a margin, with another cell to its right
		t.Row()
		add('A', 0, 0, 1, false, false)
		t.Cell("", LeftMargin(" | "))
		add('B', 0, 2, 1, false, false)
		t.Row()
		addFixed('C', 1, 0)
		addFixed('M', 1, 1)
		add('D', 1, 2, 1, false, false)
		t.Row()
		addFixed('E', 2, 0)
		t.Cell("", LeftMargin(" | "))
		add('F', 2, 2, 1, false, false)
	case 3: // the rule column gets its width from the rule cells alone: the middle line has nothing there
		t.Row()
		add('A', 0, 0, 1, false, false)
		t.Cell("", LeftMargin(" | "))
		add('B', 0, 2, 1, true, false)
		t.Row()
		addFixed('C', 1, 0)
		t.Col(2)
		add('D', 1, 2, 1, true, false)
		t.Row()
		addFixed('E', 2, 0)
		t.Cell("", LeftMargin(" | "))
		add('F', 2, 2, 1, true, false)
	}
	var buf bytes.Buffer
	if err := t.Format(&buf); err != nil {
		vndAssert(false, "format-no-error")
		return
	}
	out := buf.Bytes()
	lines := h16Lines(out)
	vndReach("h16:text")
	vndAssert(len(lines) == 3, "one-line-per-row")
	for _, ln := range lines {
		vndAssert(len(ln) == 0 || ln[len(ln)-1] != ' ', "no-line-ends-in-blanks")
	}
	pos := make([]h16Pos, len(cells))
	for k, c := range cells {
		pos[k] = h16Locate(lines, c.marker, c.n)
		vndAssert(pos[k].found && pos[k].line == c.row, "cell-content-present-on-its-row")
		if !pos[k].found {
			return
		}
		// not truncated: the whole value follows the marker
		ln := lines[pos[k].line]
		chars := 0
		for i := 0; i < len(ln); i++ {
			if ln[i] >= 0x80 && ln[i] <= 0xbf {
				continue
			}
			chars++
		}
		vndAssert(pos[k].end <= chars, "cell-content-not-truncated")
	}
	for a, ca := range cells {
		for b, cb := range cells {
			if a >= b {
				continue
			}
			if ca.row == cb.row && ca.col < cb.col {
				vndAssert(pos[a].end <= pos[b].start, "cells-on-a-line-do-not-overlap")
			}
			if ca.span == 1 && cb.span == 1 && ca.col == cb.col {
				if ca.right {
					vndAssert(pos[a].end == pos[b].end, "right-aligned-cells-of-a-column-end-at-the-same-offset")
				} else {
					vndAssert(pos[a].start == pos[b].start, "left-aligned-cells-of-a-column-start-at-the-same-offset")
				}
			}
		}
	}
	// the header stays within the extent of the columns it spans
	for a, h := range cells {
		if h.span < 2 {
			continue
		}
		lo, hi := -1, -1
		for b, c := range cells {
			if c.span != 1 || c.col < h.col || c.col >= h.col+h.span {
				continue
			}
			// a column's extent: from the start of its widest left cell / the end of its right cells
			if c.col == h.col && (lo < 0 || pos[b].start < lo) {
				lo = pos[b].start
			}
			if c.col == h.col+h.span-1 && pos[b].end > hi {
				hi = pos[b].end
			}
		}
		vndReach("h16:span")
		// the spanned columns are at least as wide as the header (they are
		// widened to fit it), so the header lies within their extent
		vndAssert(pos[a].start >= lo && pos[a].end <= hi, "header-cell-within-the-columns-it-spans")
	}
	vndObserveBytes("out", out)
}

package benchproc

// C16 (header tree part): each header cell spans exactly the columns of the
// keys it labels, with every column under exactly one header cell per level.

import (
	"golang.org/x/perf/benchfmt"
)

func H16KeyHeader() {
	nk := vndParam("keys")
	nf := vndParam("fields")
	expr := []string{"", "a", "a,b", "a,b,c"}[nf]
	if vndParam("num") == 1 {
		// the numeric order, under which the non-numeric values x and y compare equal: a cell
		// still spans columns with the same *value*, not columns that sort alike
		expr = []string{"", "a@num", "a@num,b", "a,b@num,c"}[nf]
	}
	var pp ProjectionParser
	proj, err := pp.Parse(expr, nil)
	if err != nil {
		panic(err)
	}
	names := []string{"a", "b", "c"}[:nf]
	vals := make([][]byte, nk)
	var keys []Key
	for i := 0; i < nk; i++ {
		vals[i] = make([]byte, nf)
		res := &benchfmt.Result{Name: benchfmt.Name("B"), Iters: 1}
		for f := 0; f < nf; f++ {
			var c byte
			if vndParam("num") == 1 {
				c = []byte{0, 'x', 'y'}[vndChoice("v", 3)] // concrete: the order's number parser is a regexp
			} else {
				c = vndByte("v")
				vndAssume(vndOr(c == 0, vndOr(c == 'x', c == 'y')))
			}
			vals[i][f] = c
			if c != 0 {
				res.Config = append(res.Config, benchfmt.Config{Key: names[f], Value: []byte{c}, File: true})
			}
		}
		res.Values = []benchfmt.Value{{Value: 1, Unit: "u"}}
		keys = append(keys, proj.Project(res)) // any order, duplicates allowed
	}
	h := NewKeyHeader(keys)
	vndReach("h16:header")
	vndAssert(len(h.Levels) == nf && len(h.Keys) == nk, "levels-are-the-flattened-fields")
	str := func(c byte) string {
		if c == 0 {
			return ""
		}
		return string([]byte{c})
	}
	// check one level of the tree under [start, start+n)
	var check func(nodes []*KeyHeaderNode, level, start, n int)
	check = func(nodes []*KeyHeaderNode, level, start, n int) {
		if level == nf {
			vndAssert(len(nodes) == 0, "no-cells-below-the-last-level")
			return
		}
		pos := start
		for i, nd := range nodes {
			vndAssert(nd.Field == level, "node-level")
			vndAssert(nd.Start == pos && nd.Len >= 1, "cells-are-adjacent-non-empty-runs")
			if nd.Start != pos || nd.Len < 1 || nd.Start+nd.Len > start+n {
				vndAssert(false, "cell-stays-inside-its-parent")
				return
			}
			for k := nd.Start; k < nd.Start+nd.Len; k++ {
				vndAssert(str(vals[k][level]) == nd.Value, "every-column-under-a-cell-has-its-value")
			}
			if i > 0 {
				vndAssert(nodes[i-1].Value != nd.Value, "adjacent-cells-differ")
			}
			check(nd.Children, level+1, nd.Start, nd.Len)
			pos += nd.Len
		}
		vndAssert(pos == start+n, "cells-partition-the-parent-span")
	}
	check(h.Top, 0, 0, nk)
	vndObserveInt("top", len(h.Top))
}

#!/usr/bin/env python3
"""Writes /verif/seeded/<id>/meta.json for every seeded change from its note.md (author's description),
confirm.txt (my own confirmation run, tools/reconfirm_seed.sh) and seeded/matrix.tsv (which check caught it)."""
import json, os, re, glob, sys

root = '/verif/seeded'
matrix = {}
# every matrix file, oldest first; the latest run of a (seed, check) pair wins, a detection is never forgotten
def mkey(p):
    m = re.search(r'matrix(\d*)(\w*)\.tsv', os.path.basename(p))
    return (int(m.group(1) or 1), m.group(2))
for mt in sorted(glob.glob(os.path.join(root, 'matrix*.tsv')), key=mkey):
    for line in open(mt):
        f = line.rstrip('\n').split('\t')
        if len(f) < 4 or not f[0].startswith('C'):
            continue
        row = {'check': f[1], 'exit': f[2].replace('exit=', ''),
               'violations': f[3].replace('violations=', ''),
               'labels': (f[-1].split() if len(f) > 4 and not f[-1].startswith('broken=') else []),
               'run': os.path.basename(mt)}
        rows = matrix.setdefault(f[0], {})
        prev = rows.get(f[1])
        if prev is None or not (prev['exit'] == '1' and row['exit'] != '1'):
            rows[f[1]] = row
matrix = {k: list(v.values()) for k, v in matrix.items()}

def section(lines, pat):
    """the text under the first heading or lead-in matching pat (or the matching line itself)"""
    for i, l in enumerate(lines):
        if re.search(pat, l, re.I):
            body = re.sub(r'^[-*#\s]+', '', l)
            body = re.sub(r'^\**[^:*]{0,60}\**:?\**\s*', '', body) if l.startswith('#') else body
            if l.startswith('#') or len(body) < 25:
                rest = []
                for m in lines[i+1:]:
                    if m.startswith('#'):
                        break
                    rest.append(re.sub(r'^[-*]\s*', '', m))
                    if sum(len(x) for x in rest) > 500:
                        break
                return ' '.join(rest)
            return re.sub(r'^[-*]\s*', '', l)
    return ''

for d in sorted(glob.glob(os.path.join(root, 'C*-*'))):
    sid = os.path.basename(d)
    prop = sid.split('-')[0]
    note = open(os.path.join(d, 'note.md')).read() if os.path.exists(os.path.join(d, 'note.md')) else ''
    lines = [l.strip() for l in note.splitlines() if l.strip()]
    title = re.sub(r'^#+\s*', '', lines[0]) if lines else ''
    needs = section(lines, r'^[-*#\s]*\**(what (it|is) need|need|requires|manifest|trigger|when it shows)') or section(lines, r'\bneed(s|ed)?\b|manifest|trigger')
    breaks = section(lines, r'^[-*#\s]*\**(property )?clause|^[-*#\s]*\**(what it )?breaks') or section(lines, r'clause|break')
    confirm = {}
    cf = os.path.join(d, 'confirm.txt')
    if os.path.exists(cf):
        for tok in open(cf).read().split():
            if '=' in tok:
                k, v = tok.split('=', 1)
                confirm[k] = v
    files = sorted(set(re.findall(r'^\+\+\+ b/(\S+)', open(os.path.join(d, 'patch.diff')).read(), re.M)))
    meta = {
        'id': sid,
        'property': prop,
        'source': 'independent sub-agent given only the property text and a scratch worktree of /repo',
        'files_changed': files,
        'what': title,
        'breaks': breaks,
        'needs_to_manifest': needs,
        'demonstration': 'demo_test.go (copy into the directory named in its "// dir:" comment; go test -vet=off -count=1 -run TestDemo ./<dir>/)',
        'confirmed_by_me': {
            'how': 'tools/reconfirm_seed.sh in a scratch worktree of /repo HEAD (removed afterwards): demonstration on the unmodified tree, build and full existing suite with the change, demonstration with the change',
            'repo_commit': confirm.get('commit', ''),
            'demo_on_unmodified_tree_exit': confirm.get('demo_on_unmodified_tree_exit', ''),
            'build_with_change_exit': confirm.get('build_with_change_exit', ''),
            'existing_suite_with_change_exit': confirm.get('suite_with_change_exit', ''),
            'demo_with_change_exit': confirm.get('demo_with_change_exit', ''),
            'failing_demo_test': confirm.get('failing_demo_test', ''),
        },
        'detected_by': matrix.get(sid, []),
    }
    also = os.path.join(d, 'also')
    if os.path.exists(also):
        meta['also_checked_against'] = open(also).read().split()
    json.dump(meta, open(os.path.join(d, 'meta.json'), 'w'), indent=1)
    ok = (confirm.get('demo_on_unmodified_tree_exit') == '0' and confirm.get('suite_with_change_exit') == '0'
          and confirm.get('demo_with_change_exit') not in ('0', '', None))
    det = any(m['exit'] == '1' for m in matrix.get(sid, []))
    print(sid, 'confirmed' if ok else 'NOT-CONFIRMED', 'detected' if det else 'missed')

#!/bin/bash
# Runs the thorough tier of every registered check from a snapshot of /verif (cwd) against $VP_RUN_REPO (or /repo).
export GOFLAGS=-mod=mod GOPROXY=off GOSUMDB=off GOTOOLCHAIN=local
V=$PWD
R=${VP_RUN_REPO:-/repo}
(cd $V/engine && go build -o $V/bin/gosymex ./cmd/gosymex) || exit 2
for p in ${PROPS:-C12 C20 C19 C05 C16 C01 C02 C04 C07 C09 C11 C13 C14 C10 C15 C17 C18 C03 C08 C06}; do
  echo "=== $p thorough $(date +%T)"
  /usr/bin/time -f "wall=%es" $V/bin/gosymex check -prop $p -tier thorough -verif $V -repo $R 2>&1 | grep -v '^  violated' | cut -c1-400 | tail -15
  echo "exit=${PIPESTATUS[0]}"
done

#!/bin/bash
# usage: verify_seed.sh <outdir> <i> <prop>
# Confirms a seeded change in a scratch worktree: demo passes on the unmodified tree, the existing suite passes
# with the change, the demo fails with the change. On success stores it under /verif/seeded/<prop>-<i>/.
out=$1; i=$2; prop=$3; tgt=${4:-$i}
export GOFLAGS=-mod=mod GOPROXY=off GOSUMDB=off GOTOOLCHAIN=local
wt=/tmp/vs-$prop-$tgt-$$
git -C /repo worktree remove --force $wt 2>/dev/null
git -C /repo worktree add -q --detach $wt HEAD || exit 3
trap "git -C /repo worktree remove --force $wt" EXIT
dir=$(grep -m1 -oE '// *dir: *[A-Za-z0-9_/.-]+' $out/demo${i}_test.go | sed 's/.*dir: *//')
[ -z "$dir" ] && { echo "no dir comment in demo"; exit 3; }
cp $out/demo${i}_test.go $wt/$dir/zz_seed_demo_test.go
cd $wt
echo "== demo on unmodified tree (expect pass)"
go test -vet=off -count=1 ./$dir/ > /tmp/vs.$$.log 2>&1; r0=$?; tail -3 /tmp/vs.$$.log
rm $wt/$dir/zz_seed_demo_test.go
git apply $out/change$i.diff || { echo "patch does not apply"; exit 3; }
echo "== suite with change (expect pass)"
go test -vet=off -count=1 ./... > /tmp/vs.$$.log 2>&1; r1=$?; grep -v '^ok\|no test files' /tmp/vs.$$.log | tail -5
cp $out/demo${i}_test.go $wt/$dir/zz_seed_demo_test.go
echo "== demo with change (expect fail)"
go test -vet=off -count=1 ./$dir/ > /tmp/vs.$$.log 2>&1; r2=$?; grep -E '^(---|FAIL|ok)' /tmp/vs.$$.log | head -5
rm -f /tmp/vs.$$.log
echo "demo_clean=$r0 suite_changed=$r1 demo_changed=$r2"
if [ $r0 -eq 0 ] && [ $r1 -eq 0 ] && [ $r2 -ne 0 ]; then
  d=/verif/seeded/$prop-$tgt; mkdir -p $d
  cp $out/change$i.diff $d/patch.diff; cp $out/demo${i}_test.go $d/demo_test.go; cp $out/note$i.md $d/note.md
  echo "CONFIRMED -> $d"
else
  echo "NOT CONFIRMED"; exit 1
fi

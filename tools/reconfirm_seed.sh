#!/bin/bash
# usage: reconfirm_seed.sh <seed id>  -- re-confirms /verif/seeded/<id> against /repo HEAD in a scratch worktree:
# the demonstration passes on the unmodified tree, the existing suite passes with the change, the demonstration
# fails with the change. Writes /verif/seeded/<id>/confirm.txt.
id=$1; d=/verif/seeded/$id
export GOFLAGS=-mod=mod GOPROXY=off GOSUMDB=off GOTOOLCHAIN=local
wt=/tmp/rc-$id
git -C /repo worktree remove --force $wt 2>/dev/null
git -C /repo worktree add -q --detach $wt HEAD || exit 3
trap "git -C /repo worktree remove --force $wt" EXIT
dir=$(grep -m1 -oE '// *dir: *[A-Za-z0-9_/.-]+' $d/demo_test.go | sed 's/.*dir: *//')
[ -z "$dir" ] && { echo "no dir comment in demo"; exit 3; }
cd $wt
cp $d/demo_test.go $wt/$dir/zz_seed_demo_test.go
go test -vet=off -count=1 ./$dir/ > /dev/null 2>&1; r0=$?
rm $wt/$dir/zz_seed_demo_test.go
git apply $d/patch.diff || { echo "commit=$(git rev-parse --short HEAD) patch-does-not-apply" > $d/confirm.txt; exit 3; }
go build ./... > /dev/null 2>&1; rb=$?
go test -vet=off -count=1 ./... > /tmp/rc-$id.log 2>&1; r1=$?
cp $d/demo_test.go $wt/$dir/zz_seed_demo_test.go
go test -vet=off -count=1 ./$dir/ > /tmp/rc-$id.log 2>&1; r2=$?
fail=$(grep -m1 -E '^--- FAIL' /tmp/rc-$id.log | sed 's/--- FAIL: //; s/ (.*//')
rm -f /tmp/rc-$id.log
echo "commit=$(git rev-parse --short HEAD) dir=$dir demo_on_unmodified_tree_exit=$r0 build_with_change_exit=$rb suite_with_change_exit=$r1 demo_with_change_exit=$r2 failing_demo_test=$fail" > $d/confirm.txt
cat $d/confirm.txt

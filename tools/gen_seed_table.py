#!/usr/bin/env python3
"""Prints, per property, how many seeded changes there are, how many the quick check reports (latest matrix row per
seed and check, a detection is never forgotten), and which harnesses' assertions reported them. Input: seeded/*/meta.json
(written by tools/gen_seed_meta.py)."""
import json, glob, os, collections
rows = collections.OrderedDict()
missed = []
for f in sorted(glob.glob('/verif/seeded/C*-*/meta.json'), key=lambda p: (p.split('/')[-2].split('-')[0], int(p.split('/')[-2].split('-')[1]))):
    m = json.load(open(f))
    prop = m['property']
    r = rows.setdefault(prop, {'n': 0, 'det': 0, 'harness': collections.Counter()})
    r['n'] += 1
    hit = [d for d in m['detected_by'] if d['exit'] == '1']
    if hit:
        r['det'] += 1
        hs = set()
        for d in hit:
            for lab in d['labels']:
                hs.add(lab.split('-')[0])
        for h in hs:
            r['harness'][h] += 1
    else:
        missed.append(m['id'])
print('| property | changes | reported | harnesses whose assertions reported them (number of changes) |')
print('|---|---|---|---|')
tn = td = 0
for prop, r in rows.items():
    tn += r['n']; td += r['det']
    hs = ', '.join(f'{h} ({c})' for h, c in r['harness'].most_common())
    print(f"| {prop} | {r['n']} | {r['det']} | {hs} |")
print(f'| all | {tn} | {td} | |')
print()
print('not reported:', ' '.join(missed) if missed else 'none')

#!/usr/bin/env python3
"""Regenerates /verif/MANIFEST.json from the per-property specs and the table below."""
import json, os, glob

CLAIMS = {
 # id: (level text, level note)
 "C01": ("bounded symbolic execution of the real Writer and Reader: every configuration history within the stated sizes (absent/file/internal per key and step, arbitrary value bytes) is covered by the solver and the read-back stream is compared with the input stream",
         "bounded by history length and key count; measurement values are a concrete list (float formatting/parsing of arbitrary floats is outside); trusted: gosymex engine (validated per run against the native build), go/ssa, z3"),
 "C02": ("bounded symbolic execution of the real Reader/Files on symbolic lines and configuration histories; reference classifier and association-list model in the harness",
         "bounded by line length / number of lines / files; unicode predicates come from the real tables on both sides; os.Open is an environment stub"),
 "C03": ("differential bounded symbolic execution: the reader's number paths (integer fast path, byte-slice ParseFloat/Atoi port) and the standard library's strconv are executed side by side on the same symbolic field bytes and must agree bit for bit / error for error; the integer fast path is checked against the exact value in 128-bit arithmetic",
         "bounded by field length, alphabet and frames; symbolic digits only on the exact float path, long decimals through case-split frames; ASCII fields"),
 "C04": ("every float64 bit pattern as the measurement value (number parser stubbed) against 24 units, plus every unit string over a small alphabet up to a length bound, decided by the solver (cvc5 for float queries)",
         "number parser stubbed by an arbitrary float64 (C03's subject); NaN payloads not modelled; unit strings bounded"),
 "C05": ("bounded symbolic execution of the real Name.Parts/Base, extractors, projections and literal filters: every byte string up to the stated length is covered, not sampled",
         "bounded by name length (plus concrete prefixes for long keys)"),
 "C06": ("for each generated filter expression (concrete) every result (symbolic configuration, name and per-measurement units) is decided by the solver against a recursive reference evaluator; measurement counts straddle the 32/64-bit mask words",
         "expressions: generated family up to depth 2, seed-sampled in the quick tier; regexp terms outside; for >=31 measurements only two positions are symbolic"),
 "C07": ("bounded symbolic execution of the real tokenizer/parsers/NewFilter/ProjectionParser.Parse on symbolic strings and expression texts; panics and non-termination are violations",
         "bounded by string/text length and alphabet; regexp bodies outside (native regexp needs concrete text)"),
 "C08": ("bounded symbolic execution of the real interning, group-growth, exclusion and residue code: key equality is compared with equality of the projected tuples for symbolic values, with the hash modelled as an uninterpreted function so that bucket collisions are explored",
         "bounded by results, keys and one-byte values; hash model instead of runtime maphash"),
 "C09": ("bounded symbolic execution of Projection.Project/Key.Less/SortKeys over symbolic observation histories; the comparison is checked against a reference lexicographic order computed from the history (rank of first observation per field, bytewise, list position, numeric), and irreflexivity/asymmetry/totality/transitivity are asserted on all pairs and triples",
         "bounded by number of results and value alphabet; 'num' on a concrete list of strings"),
 "C10": ("every finite float64 against the scale the real CommonScale chooses (its threshold tables are built by the package's own init code, executed by the engine): the quotient that Format prints is compared with exact decimal rounding boundaries by cvc5 floating-point queries; shared scales against the smallest non-zero magnitude",
         "AppendFloat is modelled by its rounding contract (constants computed in exact rational arithmetic); NoOpScaler's shortest formatting and the printed digits themselves are outside"),
 "C11": ("partial: the exact method. Bounded symbolic execution of the real MannWhitneyUTest/UDist on symbolic float samples: each path is one weak ordering of the pooled values (decided by float comparisons in cvc5), on which U, the one-sided p-values, the two-sided value, the unit interval, swap symmetry and PMF/CDF consistency are compared with the permutation distribution enumerated by the harness",
         "NOT covered: the normal approximation for large samples; sizes beyond the bounds; NaN inputs assumed away. Two open known findings (two-sided p-value with ties) are listed in known_findings.json and reported as KNOWN-FINDING"),
 "C12": ("partial: the comparison-, selection- and formula-structure parts only. Bounded symbolic execution of the four t-tests on summary statistics chosen by the solver from short lists, with the t distribution function replaced by an arbitrary function into [0,1]: statistic and degrees of freedom against the textbook formulas, p-value = the requested tail at the computed statistic (two-sided twice the upper tail of |t|); undersized, zero-variance and mismatched inputs are errors for arbitrary inputs; TDist.CDF range/reflection/value at 0 with the incomplete beta function arbitrary in [0,1]; Bounds, the R8 percentile (expression-identical reference on arbitrary values at concrete p) and IQR",
         "NOT covered (no encoding within reach, see DESIGN.md section 5): numerical accuracy of Lgamma/Erfc/Exp/Log/Pow, the continued fraction and its convergence, the normal inverse and generic bisection inverse, PDF/CDF agreement, beta symmetry, monotonicity of distribution functions, mean/variance/geometric mean of more than one symbolic value, weighted samples. The distribution function and math.Pow are environment stubs in the engine (natively the real ones run on both sides)"),
 "C13": ("bounded symbolic execution of the real benchmath assumptions on symbolic float samples: most-frequent-value centre and warnings of the exact model, order-statistic interval, median bracketing and binomial coverage of the assume-nothing model, sizes/threshold/unit-interval/reordering/rescaling/swap/exact-permutation value of comparisons, and the delta/range rendering rules on arbitrary floats (cvc5 floating-point queries)",
         "bounded by sample sizes (<= 12) and |x| <= 1e300; normal-model numerics outside; symbolic number formatting is opaque"),
 "C14": ("partial: bounded symbolic execution of the real pipeline ProjectionParser -> Filter.Apply -> benchtab.Builder.Add -> ToTables for the default flags and three variants on results whose configuration, names, file labels and units are symbolic: each filtered measurement is in exactly one cell once, two measurements share a cell exactly when unit/table/row/column keys agree, each cell's summary and comparison equal fresh calls of the unit's assumption on its sample and on the first column's cell, residue warnings appear exactly when merged results differ in an unprojected key",
         "NOT covered: CLI flag parsing and file I/O, geomean rows, rendering; measurement values concrete; goroutines sequentialised"),
 "C15": ("partial: map iteration order and line permutation only. The pipeline of C14 is run twice in one symbolic path, the second time with every small map iterated in an arbitrary symbolically chosen order, and the CSV bytes must be identical; results are added in every permutation and each cell's sample and centre must be identical",
         "NOT covered and not claimable with this technique: goroutine interleavings, GOMAXPROCS, data races (the engine runs goroutines to completion at the spawn point; the Go memory model is not encoded)"),
 "C16": ("partial: the column-header tree and the fixed-width layout kernel. Bounded symbolic execution of NewKeyHeader on keys projected from symbolic results (cells are adjacent non-empty runs partitioning the parent span, values consistent, adjacent cells differ), and of texttab.Table.Format on two table shapes whose cell contents are symbolic (ASCII and two-byte runes): no truncation, no overlap, left-aligned columns start and right-aligned columns end at one character offset, the header stays within the columns it spans, no trailing blanks",
         "NOT covered: larger table shapes, shrink columns, benchtab's ToText assembly, text/CSV agreement and number rendering"),
 "C17": ("partial: gating, direction, order, fence. Bounded symbolic execution of Collection.AddResults/Tables, Sort and Metrics.computeStats with symbolic measurement values (number parser stubbed), symbolic p/alpha through the public DeltaTest hook: delta shown iff no error and p < alpha, percentage formula, better-direction flag, note classes, first-appearance or stable sorted row order, retained values exactly those inside the 1.5-IQR fences",
         "NOT covered: mean of several values and min<=mean<=max (float chains time out), geomean, built-in tests' p-values, formatting; old values concrete"),
 "C18": ("partial: order independence, sample membership and the percentile kernel. Bounded symbolic execution of benchseries.Builder.Add/AllComparisonSeries on results whose experiment stamp, series stamp (two timestamp formats of one instant) and role are symbolic choices, added in every permutation with small maps iterated in arbitrary order under both duplicate policies; the percentile/median helpers on sorted symbolic float ratios (cvc5)",
         "NOT covered: the bootstrap resampling and its reproducibility, date normalisation of arbitrary text; stamps are choices among concrete strings (timestamp parsing runs natively). Open known finding: the percentile interpolation leaves [a,b] by a rounding error (pinned by cmd/benchseries golden files)"),
 "C19": ("partial: everything before SQL. Bounded symbolic execution of query-word parsing, per-key term merging (denotation of the merged part at a symbolic probe value equals the conjunction of the operands), the generated subselect templates evaluated on a symbolic record, shell-style word splitting, the front end's real quoting function, and the legacy printer/reader round trip",
         "NOT covered: execution of the SQL by sqlite3/MySQL, joins, listing counts/order/limit, HTTP (cgo/network code cannot be executed symbolically); bounded by word/value lengths"),
 "C20": ("partial: fault atomicity of the upload handler and of the database layer above database/sql, and upload-ID allocation, sequentially. Bounded symbolic execution of the real processUpload/indexFile, db.NewUpload/InsertRecord/flush/Commit/Abort, the legacy benchfmt reader and fs.MemFS with the crash point as a symbolic variable: exactly one fault at a solver-chosen numbered database operation, file creation, write offset, close, or break of the request body; afterwards no record or label of the failed upload is visible, the file being written is gone, every writer was closed, the earlier upload is intact, and a fault-free upload has every record visible once with its labels and every file stored once with the metadata header; NewUpload histories give well-formed, never reused, increasing IDs",
         "the database is a transactional-store MODEL behind the database/sql API (effects visible exactly after a successful Commit; this package's own statements only), natively the same model sits behind a database/sql driver so that replay and translator validation run the real database/sql; the multipart body is a part list (mime/multipart's own parsing outside). NOT covered: concurrent uploads and interleaved commits, the SQL engines, HTTP, the local file store, crashes of the server process"),
}

NA_REASONS = {
}
NA_DEFAULT = "no check registered yet: harness for this property is still under construction (see DESIGN.md section 4 for the plan)"


def main():
    checks = []
    served = []
    for sp in sorted(glob.glob('/verif/harness/C*/spec.json')):
        pid = json.load(open(sp))['property']
        if pid not in CLAIMS:
            continue
        text, note = CLAIMS[pid]
        served.append(pid)
        checks.append({
            "property_id": pid,
            "quick_cmd": f"/verif/bin/gosymex check -prop {pid} -tier quick",
            "thorough_cmd": f"/verif/bin/gosymex check -prop {pid} -tier thorough",
            "evidence_file": f"/verif/evidence/{pid}.json",
            "replay_cmd_template": f"/verif/bin/gosymex replay -prop {pid} -file {{path}}",
            "engine": "gosymex",
            "level_claimed": {"category": "model_checking", "text": text, "design_ref": f"DESIGN.md section 4, {pid}"},
            "level_note": note + "; trusted base: the gosymex engine (path witnesses are re-run natively on every run and every counterexample is replayed natively before it is reported), go/ssa, z3 5.1.0/4.8.12, cvc5 1.0",
            "technique": "bounded symbolic execution of go/ssa with SMT (z3/cvc5); native replay of counterexamples",
        })
    allids = [json.loads(l)["id"] for l in open('/verif/properties.jsonl')]
    NA = [{"property_id": i, "reason": NA_REASONS.get(i, NA_DEFAULT)} for i in allids if i not in served]
    m = {
        "version": 1,
        "setup_cmd": "cd /verif/engine && GOFLAGS=-mod=mod GOPROXY=off GOSUMDB=off GOTOOLCHAIN=local go build -o /verif/bin/gosymex ./cmd/gosymex",
        "hooks": {
            "guard": "none: harnesses are injected through build overlays, /repo carries no instrumentation",
            "enable": "gosymex passes the harness files as packages.Config.Overlay (engine) and as `go test -overlay` (native validation and replay)",
            "baseline_off_cmd": "cd /repo && go test -vet=off -count=1 -timeout 25m ./...",
            "source_commits": [],
            "add_only": True,
        },
        "engines": [{"name": "gosymex", "path": "/verif/engine", "serves_properties": served,
                     "kind_free_text": "symbolic interpreter for go/ssa (x/tools v0.29.0) over bit-vector/float SMT terms; forks by re-execution of decision prefixes on 16 workers; z3 5.1.0 (cross-checked with 4.8.12 in the thorough tier) for bit-vectors, cvc5 1.0 for floats; every counterexample replayed natively via go test -overlay"}],
        "checks": checks,
        "not_applicable": NA,
        "notes": "Evidence level model_checking = bounded symbolic execution; bounds, stubs, assumptions and what lies outside are in each evidence file and in DESIGN.md. known_findings.json lists repaired defects (fixed:) and open findings.",
    }
    json.dump(m, open('/verif/MANIFEST.json', 'w'), indent=1)
    print("checks:", served)

main()

#!/bin/bash
# Applies every seeded change to /repo in turn, runs the quick check of its property (plus extra checks given in
# meta "also"), reverts, and writes /verif/seeded/matrix.tsv.
out=/verif/seeded/matrix.tsv
: > $out
for d in /verif/seeded/C*-*; do
  id=$(basename $d); prop=${id%-*}
  props="$prop"
  [ -f $d/also ] && props="$props $(cat $d/also)"
  for p in $props; do
    [ -f /verif/harness/$p/spec.json ] || { echo -e "$id\t$p\tno-check" >> $out; continue; }
    res=$(/verif/tools/try_seed.sh $d/patch.diff $p 2>&1)
    rc=$(echo "$res" | grep -o 'exit=[0-9]*' | tail -1)
    nv=$(echo "$res" | grep -c '^VIOLATION')
    lab=$(echo "$res" | grep '^VIOLATION' | head -1 | sed 's/.*replay=.*\///; s/\.json//; s/-viol-[0-9]*//')
    echo -e "$id\t$p\t$rc\tviolations=$nv\t$lab" >> $out
  done
done
echo done >> $out

#!/bin/bash
# Runs the quick check of every seeded change's property (plus the checks named in its "also" file) against a scratch
# worktree of /repo with the change applied, using a snapshot of /verif, and writes /verif/seeded/matrix.tsv.
# /repo and /verif/evidence are not touched; scratch directories are removed at the end.
export GOFLAGS=-mod=mod GOPROXY=off GOSUMDB=off GOTOOLCHAIN=local
WT=/tmp/seedwt.$$; SV=/tmp/seedv.$$
git -C /repo worktree add -q --detach $WT HEAD || exit 3
mkdir -p $SV && rsync -a --exclude .git --exclude replays --exclude evidence /verif/ $SV/ && mkdir -p $SV/evidence $SV/replays
out=$SV/matrix.tsv; : > $out
for d in ${SEEDS:-/verif/seeded/C*-*}; do
  id=$(basename $d); prop=${id%-*}
  props="$prop"
  [ -f $d/also ] && props="$props $(cat $d/also)"
  git -C $WT apply $d/patch.diff || { echo -e "$id\t$prop\tpatch-does-not-apply" >> $out; continue; }
  for p in $props; do
    res=$($SV/bin/gosymex check -prop $p -verif $SV -repo $WT 2>&1); rc=$?
    nv=$(echo "$res" | grep -c '^VIOLATION')
    nb=$(echo "$res" | grep -c 'BROKEN\|SPURIOUS')
    lab=$(echo "$res" | grep '^VIOLATION' | sed 's/.*replay=.*\///; s/\.json//; s/-viol-[0-9]*//' | sort -u | head -4 | tr '\n' ' ')
    echo -e "$id\t$p\texit=$rc\tviolations=$nv\tbroken=$nb\t$lab" >> $out
  done
  git -C $WT checkout -q -- . ; git -C $WT clean -qfd
done
echo "done $(git -C /repo rev-parse --short HEAD) $(date -u +%FT%TZ)" >> $out
cp $out ${OUT:-/verif/seeded/matrix.tsv}
git -C /repo worktree remove --force $WT; rm -rf $SV

#!/bin/bash
# usage: try_seed.sh <diff> <prop> [extra gosymex args]  -- applies a patch to /repo, runs the quick check, reverts.
diff=$1; prop=$2; shift 2
cd /repo || exit 3
if ! git diff --quiet; then echo "/repo has local changes; refusing"; exit 3; fi
git apply "$diff" || { echo "patch does not apply"; exit 3; }
/verif/bin/gosymex check -prop "$prop" "$@" 2>&1 | grep -v '^  violated' | tail -15
rc=${PIPESTATUS[0]}
git -C /repo checkout -- .
echo "exit=$rc"

#!/bin/bash
# Runs every registered quick check once against /repo and prints wall time, exit code and summary line.
for p in $(python3 -c "import json; print(' '.join(c['property_id'] for c in json.load(open('/verif/MANIFEST.json'))['checks']))"); do
  s=$(date +%s)
  out=$(/verif/bin/gosymex check -prop $p -tier quick 2>&1); rc=$?
  e=$(date +%s)
  echo "$p exit=$rc wall=$((e-s))s $(echo "$out" | grep "^$p quick" | cut -c1-220)"
  echo "$out" | grep "^VIOLATION\|^BROKEN\|SPURIOUS" | head -5
done
